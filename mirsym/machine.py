"""mirsym PROTOTYPE: a symbolic executor for rustc MIR text (mir-opt-level=0), Python + z3.

Design-phase feasibility probe.  Heap objects are concrete Python graphs; scalars may be z3 terms;
branching on a symbolic scalar forks (re-execution with a decision prefix, solver-pruned).
"""
import re, sys, os, math, itertools, time, struct
from .mirparse import parse_mir, Func, parse_operand
import z3

sys.setrecursionlimit(100000)

# ------------------------------------------------------------------ values


class Cell:
    __slots__ = ('v',)

    def __init__(self, v=None):
        self.v = v


class Uninit:
    def __repr__(self): return 'UNINIT'


UNINIT = Uninit()
UNIT = ()


class Agg:
    """struct / tuple / enum value.  fields: list[Cell]"""
    __slots__ = ('ty', 'variant', 'vidx', 'fields')

    def __init__(self, ty, variant, vidx, vals):
        self.ty = ty; self.variant = variant; self.vidx = vidx
        self.fields = [Cell(v) for v in vals]

    def __repr__(self):
        nm = self.ty or ''
        if self.variant: nm += '::' + self.variant
        return f'{nm}({", ".join(repr(c.v) for c in self.fields)})'


class Ptr:
    """reference / raw pointer / Box: points to a Cell."""
    __slots__ = ('cell', 'kind')

    def __init__(self, cell, kind='ref'):
        self.cell = cell; self.kind = kind

    def __repr__(self): return f'&{self.cell.v!r}'


class SliceRef:
    """&[T] / &mut [T]: window into a list of Cells"""
    __slots__ = ('items', 'lo', 'hi')

    def __init__(self, items, lo, hi): self.items = items; self.lo = lo; self.hi = hi
    def cells(self): return self.items[self.lo:self.hi]
    def __repr__(self): return f'&[{", ".join(repr(c.v) for c in self.cells())}]'


class VecV:
    __slots__ = ('items', 'elem_ty')
    def __init__(self, items=None): self.items = items if items is not None else []
    def __repr__(self): return f'vec[{", ".join(repr(c.v) for c in self.items)}]'


class ArrV:
    __slots__ = ('items',)
    def __init__(self, vals): self.items = [Cell(v) for v in vals]
    def __repr__(self): return f'[{", ".join(repr(c.v) for c in self.items)}]'


class RStr:
    """String / str contents: list of chars (each a python str of len 1, or a z3 BitVec(32) char)."""
    __slots__ = ('chars',)
    def __init__(self, chars): self.chars = list(chars)
    def concrete(self):
        return ''.join(c if isinstance(c, str) else '?' for c in self.chars)
    def is_concrete(self): return all(isinstance(c, str) for c in self.chars)
    def __repr__(self): return 'S' + repr(self.concrete())


class StrRef:
    """&str : view of an RStr (whole)"""
    __slots__ = ('s',)
    def __init__(self, s): self.s = s
    def __repr__(self): return '&' + repr(self.s)


class RcV:
    __slots__ = ('cell',)
    def __init__(self, cell): self.cell = cell
    def __repr__(self): return f'Rc({self.cell.v!r})'


class RefCellV:
    __slots__ = ('cell', 'state')   # state: 0 free, >0 shared count, -1 mut
    def __init__(self, v): self.cell = Cell(v); self.state = 0
    def __repr__(self): return f'RefCell<{self.state}>'


class BorrowV:
    __slots__ = ('rc', 'mut', 'live')
    def __init__(self, rc, mut): self.rc = rc; self.mut = mut; self.live = True
    def __repr__(self): return 'RefMut' if self.mut else 'Ref'


class MapV:
    """HashMap<String, V> as an association list [(key RStr, Cell)]; keys may hold symbolic characters"""
    __slots__ = ('e',)
    def __init__(self): self.e = []
    def __repr__(self): return f'map{[k.concrete() for k, _ in self.e]}'


class IterV:
    """generic iterator state"""
    __slots__ = ('kind', 'cells', 'pos', 'extra')
    def __init__(self, kind, cells, extra=None): self.kind = kind; self.cells = cells; self.pos = 0; self.extra = extra
    def __repr__(self): return f'iter<{self.kind}@{self.pos}>'


class FmtArg:
    __slots__ = ('kind', 'ptr', 'ty')
    def __init__(self, kind, ptr, ty): self.kind = kind; self.ptr = ptr; self.ty = ty


class FmtArgs:
    __slots__ = ('template', 'args')
    def __init__(self, template, args): self.template = template; self.args = args


class Formatter:
    __slots__ = ('out',)
    def __init__(self): self.out = []


class Closure:
    __slots__ = ('name', 'captures')
    def __init__(self, name, caps): self.name = name; self.captures = [Cell(c) for c in caps]
    def __repr__(self): return f'closure<{self.name}>'


class FnItem:
    __slots__ = ('name',)
    def __init__(self, name): self.name = name
    def __repr__(self): return f'fn<{self.name}>'


class RustPanic(Exception):
    pass


class Unsupported(Exception):
    pass


class PathInfeasible(Exception):
    pass


class StepLimit(Exception):
    pass


# ------------------------------------------------------------------ symbolic scalars

class Sym:
    """symbolic scalar: z3 expr + rust type tag ('i64','usize','bool','f64','char','u8',...)"""
    __slots__ = ('e', 'ty')
    def __init__(self, e, ty): self.e = e; self.ty = ty
    def __repr__(self): return f'Sym<{self.ty}>({self.e})'


INT_BITS = {'i8': 8, 'i16': 16, 'i32': 32, 'i64': 64, 'i128': 128, 'isize': 64,
            'u8': 8, 'u16': 16, 'u32': 32, 'u64': 64, 'u128': 128, 'usize': 64}


def is_signed(ty): return ty[0] == 'i'


def int_range(ty):
    b = INT_BITS[ty]
    return (-(1 << (b - 1)), (1 << (b - 1)) - 1) if is_signed(ty) else (0, (1 << b) - 1)


def wrap_int(v, ty):
    b = INT_BITS[ty]
    v &= (1 << b) - 1
    if is_signed(ty) and v >> (b - 1):
        v -= 1 << b
    return v


# ------------------------------------------------------------------ the machine

class Machine:
    def __init__(self, mir_text, src_dir, step_limit=2_000_000):
        self.funcs, self.allocs = parse_mir(mir_text)
        self.src_dir = src_dir
        self.step_limit = step_limit
        self.steps = 0
        self.total_steps = 0
        self.statics = {}
        self.promoted_cache = {}
        self.stdout = []
        self.enums = {}      # type name -> [variant names]
        self.impl_index = {}  # (type, trait|None, method) -> func name
        self.free_index = {}
        self.solver = z3.Solver()
        self.solver.set('timeout', int(os.environ.get('VERIF_SOLVER_TIMEOUT_MS', '60000')))
        self.solver.push()
        self.pc = []          # path condition (z3 bools)
        self.decisions = []   # replay prefix: list of (tag, value); tag 'b' branch, 'c' choose, 'z' concretize
        self.dpos = 0
        self.pending = []     # alternative prefixes discovered
        self.stats = {'solver_calls': 0, 'sat': 0, 'unsat': 0, 'forks': 0, 'solver_s': 0.0}
        self.covered = {}     # MIR function name -> times entered
        self.models_used = {}  # std model key -> times called
        self.concrete_inputs = None   # dict name -> python value (concrete re-run mode)
        self.inputs = {}      # name -> Sym (symbolic mode) for model extraction
        self.vfs = {}
        self.timer = None     # modelled ThreadTimer state
        self.stop_countdown = -1
        self.obs_count = 0
        self.post_hooks = {}
        self.depth = 0
        self.max_depth = 3000
        self._resolve_cache = {}
        self._index_source()
        self._index_funcs()

    # ---------------------------------------------------------- source indexing
    def _index_source(self):
        import os, glob
        self.src = {}
        for p in glob.glob(os.path.join(self.src_dir, '*.rs')):
            txt = open(p).read()
            self.src['src/' + os.path.basename(p)] = txt.split('\n')
            for m in re.finditer(r'\benum\s+(\w+)\s*\{', txt):
                name = m.group(1)
                i = m.end(); depth = 1; j = i
                while depth:
                    c = txt[j]
                    if c == '{': depth += 1
                    elif c == '}': depth -= 1
                    j += 1
                body = txt[i:j - 1]
                body = re.sub(r'//[^\n]*', '', body)
                body = re.sub(r'#\[[^\]]*\]', '', body)
                vs = []
                depth = 0; cur = ''
                for c in body:
                    if c in '({[<': depth += 1
                    elif c in ')}]>': depth -= 1
                    if c == ',' and depth == 0:
                        vs.append(cur); cur = ''
                    else:
                        cur += c
                vs.append(cur)
                names = []
                for v in vs:
                    mm = re.match(r'\s*(\w+)', v)
                    if mm: names.append(mm.group(1))
                self.enums[name] = names
        self.structs = {}
        self.variant_fields = {}   # (enum, variant) -> [field names] for struct-like variants
        for lines in self.src.values():
            txt = '\n'.join(lines)
            txt = re.sub(r'//[^\n]*', '', txt)
            for m in re.finditer(r'\bstruct\s+(\w+)(?:<[^>]*>)?\s*\{', txt):
                i = m.end(); depth = 1; j = i
                while depth:
                    c = txt[j]
                    if c == '{': depth += 1
                    elif c == '}': depth -= 1
                    j += 1
                body = txt[i:j - 1]
                self.structs[m.group(1)] = re.findall(r'(?:pub\s+)?(\w+)\s*:', re.sub(r'<[^<>]*(?:<[^<>]*(?:<[^<>]*>[^<>]*)*>[^<>]*)*>', '', body))
            for m in re.finditer(r'\benum\s+(\w+)\s*\{', txt):
                i = m.end(); depth = 1; j = i
                while depth:
                    c = txt[j]
                    if c == '{': depth += 1
                    elif c == '}': depth -= 1
                    j += 1
                body = re.sub(r'#\[[^\]]*\]', '', txt[i:j - 1])
                for vm in re.finditer(r'(\w+)\s*\{([^}]*)\}', body):
                    self.variant_fields[(m.group(1), vm.group(1))] = re.findall(r'(\w+)\s*:', re.sub(r'<[^<>]*>', '', vm.group(2)))
        self.enums['Option'] = ['None', 'Some']
        self.enums['Result'] = ['Ok', 'Err']
        self.enums['ControlFlow'] = ['Continue', 'Break']
        self.enums['Ordering'] = ['Less', 'Equal', 'Greater']

    def _span_text(self, file, l1, c1, l2, c2):
        lines = self.src.get(file)
        if not lines: return ''
        if l1 == l2:
            return lines[l1 - 1][c1 - 1:c2 - 1]
        out = [lines[l1 - 1][c1 - 1:]] + lines[l1:l2 - 1] + [lines[l2 - 1][:c2 - 1]]
        return '\n'.join(out)

    def _index_funcs(self):
        for name, f in self.funcs.items():
            if f.kind != 'fn': continue
            m = re.search(r'<impl at (\S+):(\d+):(\d+): (\d+):(\d+)>::(\w+)$', name)
            if m and '{closure' not in name:
                file, l1, c1, l2, c2, meth = m.group(1), int(m.group(2)), int(m.group(3)), int(m.group(4)), int(m.group(5)), m.group(6)
                txt = self._span_text(file, l1, c1, l2, c2).strip()
                trait = None; ty = None
                mm = re.match(r'impl(?:<[^>]*>)?\s+([\w:]+)(?:<[^>]*>)?\s+for\s+([\w:]+)', txt)
                if mm:
                    trait = mm.group(1).split('::')[-1]; ty = mm.group(2).split('::')[-1]
                else:
                    mm = re.match(r'impl(?:<[^>]*>)?\s+([\w:]+)', txt)
                    if mm:
                        ty = mm.group(1).split('::')[-1]
                    else:
                        # derive: span text is the trait name; type from first arg
                        trait = txt.split('::')[-1]
                        a0 = f.arg_tys[0] if f.arg_tys else ''
                        ty = type_head(a0.lstrip('&').replace('mut ', ''))
                self.impl_index[(ty, trait, meth)] = name
            else:
                last = name.split('::')[-1]
                self.free_index.setdefault(last, []).append(name)

    # ---------------------------------------------------------- symbolic control
    def fresh(self, name, ty):
        if self.concrete_inputs is not None:
            if name not in self.concrete_inputs:
                raise Unsupported('concrete re-run lacks input ' + name)
            return self.concrete_inputs[name]
        if name in self.inputs:
            return self.inputs[name]
        if ty == 'bool':
            v = Sym(z3.Bool(name), 'bool')
        elif ty == 'f64':
            v = Sym(z3.FP(name, z3.Float64()), 'f64')
        elif ty == 'char':
            v = Sym(z3.BitVec(name, 32), 'char')
        else:
            v = Sym(z3.BitVec(name, INT_BITS[ty]), ty)
        self.inputs[name] = v
        return v

    def _check(self, extra=None):
        t0 = time.time()
        self.stats['solver_calls'] += 1
        if extra is not None:
            self.solver.push(); self.solver.add(extra)
        r = self.solver.check()
        if extra is not None:
            self.solver.pop()
        self.stats['solver_s'] += time.time() - t0
        if r == z3.sat: self.stats['sat'] += 1
        elif r == z3.unsat: self.stats['unsat'] += 1
        else: raise Unsupported('solver returned unknown: ' + self.solver.reason_unknown())
        return r == z3.sat

    def add_pc(self, e):
        self.pc.append(e)
        self.solver.add(e)

    def assume(self, cond):
        if isinstance(cond, Sym):
            e = z3.simplify(cond.e)
            if z3.is_true(e): return
            self.add_pc(e)
            if z3.is_false(e) or not self._check():
                raise PathInfeasible()
        elif not cond:
            raise PathInfeasible()

    def branch(self, cond):
        """Decide a symbolic boolean; returns python bool, recording/forking."""
        if not isinstance(cond, Sym):
            return bool(cond)
        e = z3.simplify(cond.e)
        if z3.is_true(e): return True
        if z3.is_false(e): return False
        if self.dpos < len(self.decisions):
            tag, d = self.decisions[self.dpos]; self.dpos += 1
            if tag != 'b': raise Unsupported('decision replay desync (expected b, got %s)' % tag)
            self.add_pc(e if d else z3.Not(e))
            return d
        can_t = self._check(e)
        can_f = self._check(z3.Not(e))
        if can_t and can_f:
            self.stats['forks'] += 1
            self.pending.append(self.decisions[:self.dpos] + [('b', False)])
            self.decisions = self.decisions[:self.dpos] + [('b', True)]; self.dpos += 1
            self.add_pc(e)
            return True
        if not can_t and not can_f:
            raise PathInfeasible()
        d = can_t
        self.decisions = self.decisions[:self.dpos] + [('b', d)]; self.dpos += 1
        self.add_pc(e if d else z3.Not(e))
        return d

    def choose(self, n, tag='c'):
        """fork over range(n) (structural nondeterminism, no solver needed)"""
        if n <= 0: raise PathInfeasible()
        if self.dpos < len(self.decisions):
            t, d = self.decisions[self.dpos]; self.dpos += 1
            if t != tag: raise Unsupported('decision replay desync (expected %s, got %s)' % (tag, t))
            return d
        for k in range(n - 1, 0, -1):
            self.pending.append(self.decisions[:self.dpos] + [(tag, k)])
        self.decisions = self.decisions[:self.dpos] + [(tag, 0)]; self.dpos += 1
        return 0

    def concretize(self, v, limit=64):
        """fork a symbolic integer over all its feasible values (must be few)"""
        if not isinstance(v, Sym): return v
        e = z3.simplify(v.e)
        if z3.is_bv_value(e):
            val = e.as_long()
            return wrap_int(val, v.ty) if v.ty in INT_BITS else val
        if self.dpos < len(self.decisions):
            tag, val = self.decisions[self.dpos]; self.dpos += 1
            if tag != 'z': raise Unsupported('decision replay desync (expected z, got %s)' % tag)
            self.add_pc(v.e == val)
            return wrap_int(val, v.ty) if v.ty in INT_BITS else val
        vals = []
        self.solver.push()
        while len(vals) <= limit:
            if not self._check(): break
            mdl = self.solver.model()
            val = mdl.eval(v.e, model_completion=True).as_long()
            vals.append(val)
            self.solver.add(v.e != val)
        self.solver.pop()
        if not vals: raise PathInfeasible()
        if len(vals) > limit: raise Unsupported('concretize: more than %d feasible values' % limit)
        vals.sort()
        for other in vals[:0:-1]:
            self.pending.append(self.decisions[:self.dpos] + [('z', other)])
        val = vals[0]
        self.decisions = self.decisions[:self.dpos] + [('z', val)]; self.dpos += 1
        self.add_pc(v.e == val)
        return wrap_int(val, v.ty) if v.ty in INT_BITS else val

    def reset(self, prefix=(), concrete_inputs=None):
        self.decisions = list(prefix); self.dpos = 0; self.pending = []; self.pc = []
        self.solver.pop(); self.solver.push()
        self.total_steps += self.steps
        self.steps = 0; self.stdout = []; self.depth = 0
        self.statics = {}
        self.inputs = {}
        self.timer = None
        self.stop_countdown = -1
        self.obs_count = 0
        self.post_hooks = {}
        self.concrete_inputs = concrete_inputs
        if concrete_inputs is not None:
            # concrete re-run: only structural decisions are replayed
            self.decisions = [d for d in self.decisions if d[0] == 'c']

    def model(self):
        if not self._check():
            raise Unsupported('final path condition unsat')
        return self.solver.model()

    def model_inputs(self):
        """concrete value for every symbolic input created on this path"""
        mdl = self.model()
        out = {}
        for name, s in self.inputs.items():
            out[name] = model_value(mdl, s)
        return out

    # ---------------------------------------------------------- function resolution
    def resolve(self, callee):
        """callee text -> ('mir', Func) | ('model', pyfunc, key)"""
        c = self._resolve_cache.get(callee) if hasattr(self, '_resolve_cache') else None
        if c: return c
        if not hasattr(self, '_resolve_cache'): self._resolve_cache = {}
        r = self._resolve(callee)
        self._resolve_cache[callee] = r
        return r

    def _resolve(self, callee):
        key = canon(callee)
        # exact local name
        if callee in self.funcs and self.funcs[callee].kind == 'fn':
            return ('mir', self.funcs[callee])
        stripped = strip_generics(callee)
        if stripped in self.funcs and self.funcs[stripped].kind == 'fn':
            return ('mir', self.funcs[stripped])
        # trait / inherent method on local type
        m = re.match(r'^<(.*) as (.*)>::(\w+)(?:::<.*>)?$', callee, re.S)
        if m:
            ty = type_head(m.group(1)); tr = type_head(m.group(2)); meth = m.group(3)
            n = self.impl_index.get((ty, tr, meth))
            if n and not m.group(1).strip().startswith('&'):
                return ('mir', self.funcs[n])
        else:
            parts = split_path(stripped)
            if len(parts) >= 2:
                n = self.impl_index.get((parts[-2], None, parts[-1]))
                if n: return ('mir', self.funcs[n])
            last = parts[-1]
            cands = self.free_index.get(last, [])
            local_mods = {k[4:-3] for k in self.src}
            is_local_path = len(parts) == 1 or (len(parts) == 2 and parts[0] in local_mods)
            if len(cands) == 1 and is_local_path:
                return ('mir', self.funcs[cands[0]])
            for cnd in cands:
                if cnd.endswith(stripped): return ('mir', self.funcs[cnd])
        # closures: "<{closure@...} as Fn..>::call.." handled in models
        fn = MODELS.get(key)
        if fn: return ('model', fn, key)
        # pattern models
        for pat, fn in PATTERN_MODELS:
            if pat.match(key): return ('model', fn, key)
        raise Unsupported(f'no model for callee: {callee}   [key {key}]')

    # ---------------------------------------------------------- execution
    def call(self, func, args):
        if isinstance(func, str):
            kind = self.resolve(func)
            if kind[0] == 'model':
                self.models_used[kind[2]] = self.models_used.get(kind[2], 0) + 1
                return kind[1](self, func, args)
            func = kind[1]
        self.covered[func.name] = self.covered.get(func.name, 0) + 1
        is_obs = func.name == 'query_stopped' or func.name.endswith('::query_stopped')
        if is_obs: self.obs_count += 1
        if is_obs and self.stop_countdown >= 0:
            # modelled timer thread: it may set the flag between any two observations of it
            if self.stop_countdown == 0:
                self.stop_countdown = -1
                if self.timer is not None and self.timer.get('armed'): self.timer['fired'] = True
                self.call('time_out::stop_query', [])
            else:
                self.stop_countdown -= 1
        self.depth += 1
        if self.depth > self.max_depth:
            raise StepLimit('call depth')
        try:
            ret = self._run(func, args)
        finally:
            self.depth -= 1
        if self.post_hooks:
            h = self.post_hooks.get(func.name.split('::')[-1])
            if h is not None: h(self, func, args, ret)
        return ret

    def _run(self, func, args):
        frame = {-1: func}
        for i, a in enumerate(args):
            frame[i + 1] = Cell(a)
        bb = 0
        blocks = func.blocks
        while True:
            for st in blocks[bb]:
                self.steps += 1
                if self.steps > self.step_limit: raise StepLimit('steps')
                k = st[0]
                if k == 'assign':
                    v = self.rvalue(frame, st[2])
                    self.place_cell(frame, st[1], create=True).v = v
                elif k == 'goto':
                    bb = st[1]; break
                elif k == 'switch':
                    v = self.operand(frame, st[1])
                    bb = self.do_switch(v, st[2], st[3]); break
                elif k == 'call':
                    argv = [self.operand(frame, a) for a in st[3]]
                    callee = st[2]
                    if callee.startswith(('move _', 'copy _')):
                        fv = self.operand(frame, parse_operand_cached(callee))
                        r = self.call_value(fv, argv)
                    else:
                        r = self.call(callee, argv)
                    tg = st[4]
                    if 'return' not in tg:
                        raise Unsupported('diverging call returned: ' + callee)
                    self.place_cell(frame, st[1], create=True).v = r
                    bb = tg['return']; break
                elif k == 'drop':
                    c = self.place_cell(frame, st[1], create=True)
                    self.do_drop(c.v)
                    bb = st[2]['return']; break
                elif k == 'assert':
                    v = self.operand(frame, st[1])
                    ok = self.branch(sym_eq_bool(v, st[2]))
                    if not ok:
                        raise RustPanic('assert: ' + st[3])
                    bb = st[4]['success']; break
                elif k == 'return':
                    c = frame.get(0)
                    return c.v if c is not None else UNIT
                elif k == 'unreachable':
                    raise Unsupported('reached unreachable in ' + func.name)
                elif k == 'resume':
                    raise Unsupported('resume')
                elif k == 'setdiscr':
                    raise Unsupported('setdiscr')
                else:
                    raise Unsupported('stmt ' + k)
            else:
                raise Unsupported('block fell through: %s bb%d' % (func.name, bb))

    def call_value(self, fv, argv):
        if isinstance(fv, FnItem):
            parts = split_path(strip_generics(fv.name))
            if len(parts) >= 2 and parts[-2] in self.enums and parts[-1] in self.enums[parts[-2]]:
                return self.make_adt(fv.name, list(argv))        # a tuple-variant constructor used as a function
            return self.call(fv.name, argv)
        if isinstance(fv, Closure):
            return models.call_closure(self, fv, argv)
        raise Unsupported('call_value ' + repr(fv))

    def do_switch(self, v, targets, other):
        if isinstance(v, Sym):
            for val, bb in targets:
                if v.ty == 'bool':
                    cond = Sym(v.e if val else z3.Not(v.e), 'bool')
                else:
                    cond = Sym(v.e == val, 'bool')
                if self.branch(cond): return bb
            return other
        if v is True: v = 1
        elif v is False: v = 0
        elif isinstance(v, str): v = ord(v)
        for val, bb in targets:
            if v == val: return bb
        if other is None: raise Unsupported('switch no target')
        return other

    def do_drop(self, v):
        if isinstance(v, BorrowV):
            if v.live:
                v.live = False
                if v.mut: v.rc.state = 0
                else: v.rc.state -= 1
        elif isinstance(v, Agg):
            for c in v.fields: self.do_drop(c.v)

    # ---------------------------------------------------------- places
    def place_cell(self, frame, p, create=False):
        k = p[0]
        if k == 'local':
            c = frame.get(p[1])
            if c is None:
                c = frame[p[1]] = Cell(UNINIT)
            return c
        if k == 'deref':
            v = self.place_cell(frame, p[1]).v
            return self.deref_cell(v)
        if k == 'field':
            base = self.place_cell(frame, p[1], create)
            ty = p[3]
            v = base.v
            # transparent wrappers
            if ty.startswith(('std::ptr::Unique<', 'std::ptr::NonNull<')) and isinstance(v, Ptr):
                return base
            if ty.startswith(('std::mem::ManuallyDrop<', 'std::mem::MaybeDangling<', 'std::mem::MaybeUninit<')):
                return base
            if p[1][0] == 'field' and p[1][3].startswith(('std::mem::ManuallyDrop<', 'std::mem::MaybeDangling<')):
                return base
            if isinstance(v, Uninit) and create:
                # writing a field of an uninitialised aggregate: materialise lazily
                v = base.v = Agg(None, None, None, [])
            if isinstance(v, Closure):
                return v.captures[p[2]]      # captured variables are the fields of the closure value
            if isinstance(v, Agg):
                while len(v.fields) <= p[2]:
                    if not create: raise Unsupported(f'field {p[2]} of {v!r}')
                    v.fields.append(Cell(UNINIT))
                return v.fields[p[2]]
            if isinstance(v, (Ptr,)) and ty.startswith('std::ptr::'):
                return base
            raise Unsupported(f'field {p[2]}:{ty} of {v!r}')
        if k == 'downcast':
            base = self.place_cell(frame, p[1], create)
            v = base.v
            if isinstance(v, Agg) and v.variant != p[2]:
                raise Unsupported(f'bad downcast {v!r} as {p[2]}')
            return base
        if k == 'index':
            base = self.place_cell(frame, p[1]).v
            idx = self.concretize(frame[p[2]].v)
            items = seq_cells(base)
            if idx < 0 or idx >= len(items): raise RustPanic('index out of bounds (MIR index)')
            return items[idx]
        if k == 'cindex':
            base = self.place_cell(frame, p[1]).v
            items = seq_cells(base)
            i = len(items) - p[2] if p[4] else p[2]
            return items[i]
        if k == 'subslice':
            base = self.place_cell(frame, p[1]).v
            items = seq_cells(base)
            lo = p[2]; hi = len(items) - p[3] if p[4] else p[3]
            return Cell(SliceRef(items, lo, hi) if not isinstance(base, SliceRef) else SliceRef(base.items, base.lo + lo, base.lo + hi))
        raise Unsupported('place ' + k)

    def deref_cell(self, v):
        if isinstance(v, Ptr): return v.cell
        if isinstance(v, RcV): return v.cell
        if isinstance(v, SliceRef): return Cell(v)      # *slice_ref as a place: indexing goes to the shared element cells
        if isinstance(v, StrRef): return Cell(v.s)
        raise Unsupported(f'deref of {v!r}')

    # ---------------------------------------------------------- operands / rvalues
    def operand(self, frame, op):
        k = op[0]
        if k == 'move':
            c = self.place_cell(frame, op[1])
            return c.v
        if k == 'copy':
            return copy_val(self.place_cell(frame, op[1]).v)
        return self.const(op[1], frame)

    def const(self, c, frame=None):
        k = c[0]
        if k == 'unit': return UNIT
        if k == 'bool': return c[1]
        if k == 'int': return c[1]
        if k == 'f64': return c[1]
        if k == 'str': return StrRef(RStr(c[1]))
        if k == 'bytes': return Ptr(Cell(ArrV(c[1])))
        if k == 'char': return c[1]
        if k == 'alloc':
            name = self.allocs.get(c[1])
            if name is None: raise Unsupported('alloc const ' + repr(c))
            return Ptr(self.static_cell(name), 'raw')
        if k == 'promoted':
            key = (c[1], c[2])
            f = self.funcs.get(f'{c[1]}::promoted[{c[2]}]')
            if f is None and frame is not None:
                f = self.funcs[f'{frame[-1].name}::promoted[{c[2]}]']
            return self.call(f, [])
        if k == 'named':
            n = c[1]
            nn = re.sub(r'::<impl \w+>', '', n)
            fm = re.fullmatch(r'(?:std::|core::)?f64::(EPSILON|NAN|INFINITY|NEG_INFINITY|MAX|MIN|MIN_POSITIVE)', nn) or re.fullmatch(r'(?:std::|core::)?f64::consts::(PI|E)', nn)
            if fm:
                return {'EPSILON': 2.220446049250313e-16, 'NAN': float('nan'), 'INFINITY': float('inf'), 'NEG_INFINITY': float('-inf'), 'MAX': 1.7976931348623157e308,
                        'MIN': -1.7976931348623157e308, 'MIN_POSITIVE': 2.2250738585072014e-308, 'PI': math.pi, 'E': math.e}[fm.group(1)]
            mm = re.fullmatch(r'(?:std::|core::)?([iu](?:8|16|32|64|128|size))::(MIN|MAX)', nn)
            if mm:
                lo, hi = int_range(mm.group(1))
                return lo if mm.group(2) == 'MIN' else hi
            f = self.funcs.get(n)
            if f is None and '::' in n and '<' not in n:
                g = self.funcs.get(n.split('::')[-1])     # trimmed path: the item is printed under its bare name
                if g is not None and g.kind in ('constval', 'const'): f = g
            if f is not None and f.kind == 'constval': return self.const(f.value)
            if f is not None and f.kind in ('const',): return self.call(f, [])
            return FnItem(n)
        raise Unsupported('const ' + repr(c))

    def static_cell(self, name):
        c = self.statics.get(name)
        if c is None:
            f = None
            for n, fn in self.funcs.items():
                if fn.kind == 'static' and n.split('::')[-1] == name: f = fn
            c = self.statics[name] = Cell(self.call(f, []))
        return c

    def rvalue(self, frame, rv):
        k = rv[0]
        if k == 'use': return self.operand(frame, rv[1])
        if k == 'ref':
            return self.make_ref(frame, rv[2], rv[1])
        if k == 'binop':
            return self.binop(rv[1], self.operand(frame, rv[2]), self.operand(frame, rv[3]), frame, rv)
        if k == 'unop':
            v = self.operand(frame, rv[2])
            if rv[1] == 'Not':
                if isinstance(v, Sym):
                    return Sym(z3.Not(v.e), 'bool') if v.ty == 'bool' else Sym(~v.e, v.ty)
                return (not v) if isinstance(v, bool) else ~v
            if rv[1] == 'Neg':
                if isinstance(v, Sym):
                    return Sym(z3.fpNeg(v.e), 'f64') if v.ty == 'f64' else Sym(-v.e, v.ty)
                return -v
            if rv[1] == 'PtrMetadata':
                # the length half of a slice / str fat pointer
                if isinstance(v, SliceRef): return v.hi - v.lo
                if isinstance(v, StrRef): return sum(models.char_utf8_len(self, ch) for ch in v.s.chars)
                if isinstance(v, Ptr) and isinstance(v.cell.v, (VecV, ArrV)): return len(v.cell.v.items)
                return UNIT
            raise Unsupported('unop ' + rv[1])
        if k == 'discr':
            v = self.place_cell(frame, rv[1]).v
            if isinstance(v, Agg):
                # std::cmp::Ordering is repr(i8) with Less = -1: switch targets print its discriminant as the unsigned byte 255
                if v.ty == 'Ordering' and isinstance(v.vidx, int) and v.vidx < 0: return v.vidx & 0xff
                return v.vidx
            raise Unsupported(f'discriminant of {v!r}')
        if k == 'cast':
            return self.cast(self.operand(frame, rv[1]), rv[2], rv[3])
        if k == 'tuple':
            return Agg(None, None, None, [self.operand(frame, o) for o in rv[1]])
        if k == 'array':
            return ArrV([self.operand(frame, o) for o in rv[1]])
        if k == 'adt':
            return self.make_adt(rv[1], [self.operand(frame, o) for o in rv[2]], rv[3])
        if k == 'closure':
            return Closure(rv[1], [self.operand(frame, o) for o in rv[2]])
        if k == 'len':
            return len(seq_cells(self.place_cell(frame, rv[1]).v))
        raise Unsupported('rvalue ' + k)

    def make_ref(self, frame, place, kind):
        # &(*p) where p is a StrRef / SliceRef: reborrow returns same value
        if place[0] == 'deref':
            inner = self.place_cell(frame, place[1]).v
            if isinstance(inner, (StrRef, SliceRef)):
                return inner
            if isinstance(inner, BorrowV):
                raise Unsupported('deref BorrowV directly')
        c = self.place_cell(frame, place)
        return Ptr(c, 'ref' if kind in ('shared', 'mut') else 'raw')

    def make_adt(self, path, vals, names=None):
        p = strip_generics(path)
        parts = split_path(p)
        last = parts[-1]
        # enum variant?
        if len(parts) >= 2 and parts[-2] in self.enums and last in self.enums[parts[-2]]:
            ty = parts[-2]
            if names:
                decl = self.variant_fields.get((ty, last))
                if decl and sorted(decl) == sorted(names) and decl != names:
                    vals = [vals[names.index(n)] for n in decl]
            if ty == 'Ordering': return Agg('Ordering', last, self.enums[ty].index(last) - 1, vals)       # repr(i8): Less = -1
            return Agg(ty, last, self.enums[ty].index(last), vals)
        if names and last in self.structs:
            decl = self.structs[last]
            if sorted(decl) == sorted(names) and decl != names:
                vals = [vals[names.index(n)] for n in decl]
        if len(parts) == 1 and last in ('Less', 'Equal', 'Greater'):
            return Agg('Ordering', last, ['Less', 'Equal', 'Greater'].index(last) - 1, vals)
        # struct
        return Agg(last, None, None, vals)

    def binop(self, op, a, b, frame=None, rv=None):
        sym = isinstance(a, Sym) or isinstance(b, Sym)
        if not sym:
            if isinstance(a, str) and len(a) == 1: a = ord(a)
            if isinstance(b, str) and len(b) == 1: b = ord(b)
            ty = self.operand_ty(frame, rv[2]) if rv and frame is not None else None
            if op == 'Eq': return a == b
            if op == 'Ne': return a != b
            if op == 'Lt': return a < b
            if op == 'Le': return a <= b
            if op == 'Gt': return a > b
            if op == 'Ge': return a >= b
            if op in ('AddWithOverflow', 'SubWithOverflow', 'MulWithOverflow'):
                r = a + b if op[0] == 'A' else a - b if op[0] == 'S' else a * b
                lo, hi = int_range(ty)
                return Agg(None, None, None, [wrap_int(r, ty), not (lo <= r <= hi)])
            if isinstance(a, float) or isinstance(b, float):
                if op == 'Add': return a + b
                if op == 'Sub': return a - b
                if op == 'Mul': return a * b
                if op == 'Div':
                    if b == 0:
                        if a == 0 or a != a: return float('nan')
                        return math.copysign(float('inf'), a) * math.copysign(1.0, b)
                    return a / b
            if op == 'Add': return wrap_int(a + b, ty)
            if op == 'Sub': return wrap_int(a - b, ty)
            if op == 'Mul': return wrap_int(a * b, ty)
            if op == 'Div':
                q = abs(a) // abs(b)
                return wrap_int(q if (a < 0) == (b < 0) else -q, ty)
            if op == 'Rem':
                r = abs(a) % abs(b)
                return wrap_int(r if a >= 0 else -r, ty)
            if op == 'BitAnd': return (a & b) if not isinstance(a, bool) else (a and b)
            if op == 'BitOr': return (a | b) if not isinstance(a, bool) else (a or b)
            if op == 'BitXor': return a ^ b
            if op in ('Shl', 'ShlUnchecked'):
                if b < 0 or b >= INT_BITS.get(ty, 64): raise RustPanic('attempt to shift left with overflow')
                return wrap_int(a << b, ty)
            if op in ('Shr', 'ShrUnchecked'):
                if b < 0 or b >= INT_BITS.get(ty, 64): raise RustPanic('attempt to shift right with overflow')
                return wrap_int(a >> b, ty)
            raise Unsupported('binop ' + op)
        # symbolic
        ty = a.ty if isinstance(a, Sym) else b.ty
        ea, eb = to_z3(a, ty), to_z3(b, ty)
        if ty == 'f64':
            rm = z3.RNE()
            tbl = {'Eq': lambda: z3.fpEQ(ea, eb), 'Ne': lambda: z3.Not(z3.fpEQ(ea, eb)),
                   'Lt': lambda: z3.fpLT(ea, eb), 'Le': lambda: z3.fpLEQ(ea, eb),
                   'Gt': lambda: z3.fpGT(ea, eb), 'Ge': lambda: z3.fpGEQ(ea, eb)}
            if op in tbl: return Sym(tbl[op](), 'bool')
            tbl = {'Add': lambda: z3.fpAdd(rm, ea, eb), 'Sub': lambda: z3.fpSub(rm, ea, eb),
                   'Mul': lambda: z3.fpMul(rm, ea, eb), 'Div': lambda: z3.fpDiv(rm, ea, eb)}
            return Sym(tbl[op](), 'f64')
        if ty == 'bool':
            tbl = {'Eq': lambda: ea == eb, 'Ne': lambda: ea != eb, 'BitAnd': lambda: z3.And(ea, eb),
                   'BitOr': lambda: z3.Or(ea, eb), 'BitXor': lambda: z3.Xor(ea, eb)}
            return Sym(tbl[op](), 'bool')
        sg = ty in INT_BITS and is_signed(ty)
        if op == 'Eq': return Sym(ea == eb, 'bool')
        if op == 'Ne': return Sym(ea != eb, 'bool')
        if op == 'Lt': return Sym(ea < eb if sg else z3.ULT(ea, eb), 'bool')
        if op == 'Le': return Sym(ea <= eb if sg else z3.ULE(ea, eb), 'bool')
        if op == 'Gt': return Sym(ea > eb if sg else z3.UGT(ea, eb), 'bool')
        if op == 'Ge': return Sym(ea >= eb if sg else z3.UGE(ea, eb), 'bool')
        if op in ('AddWithOverflow', 'SubWithOverflow', 'MulWithOverflow'):
            if op[0] == 'A':
                r = ea + eb
                ovf = z3.Not(z3.And(z3.BVAddNoOverflow(ea, eb, sg), z3.BVAddNoUnderflow(ea, eb) if sg else True))
            elif op[0] == 'S':
                r = ea - eb
                ovf = z3.Not(z3.And(z3.BVSubNoOverflow(ea, eb) if sg else True, z3.BVSubNoUnderflow(ea, eb, sg)))
            else:
                r = ea * eb
                ovf = z3.Not(z3.And(z3.BVMulNoOverflow(ea, eb, sg), z3.BVMulNoUnderflow(ea, eb) if sg else True))
            return Agg(None, None, None, [Sym(r, ty), Sym(ovf, 'bool')])
        if op == 'Add': return Sym(ea + eb, ty)
        if op == 'Sub': return Sym(ea - eb, ty)
        if op == 'Mul': return Sym(ea * eb, ty)
        if op == 'Div': return Sym(ea / eb if sg else z3.UDiv(ea, eb), ty)
        if op == 'Rem': return Sym(z3.SRem(ea, eb) if sg else z3.URem(ea, eb), ty)
        if op == 'BitAnd': return Sym(ea & eb, ty)
        if op == 'BitOr': return Sym(ea | eb, ty)
        if op == 'BitXor': return Sym(ea ^ eb, ty)
        if op in ('Shl', 'ShlUnchecked', 'Shr', 'ShrUnchecked'):
            # the shift amount may have another width: bring it to the width of the shifted value
            if eb.size() != ea.size(): eb = z3.ZeroExt(ea.size() - eb.size(), eb) if eb.size() < ea.size() else z3.Extract(ea.size() - 1, 0, eb)
            if op.startswith('Shl'): return Sym(ea << eb, ty)
            return Sym((ea >> eb) if sg else z3.LShR(ea, eb), ty)
        raise Unsupported('sym binop ' + op)

    def operand_ty(self, frame, op):
        # best effort: we only need the integer type for wrapping; look through the place's local type
        if op[0] == 'const':
            c = op[1]
            return c[2] if c[0] == 'int' else None
        return self.place_ty(frame, op[1])

    def place_ty(self, frame, p):
        k = p[0]
        if k == 'local': return frame[-1].locals.get(p[1], 'usize')
        if k == 'field': return p[3]
        if k == 'deref':
            t = self.place_ty(frame, p[1])
            for pre in ('&mut ', '&', '*mut ', '*const '):
                if t.startswith(pre): return t[len(pre):]
            return t
        return 'usize'

    def cast(self, v, ty, kind):
        if kind == 'IntToFloat':
            if isinstance(v, Sym):
                return Sym(z3.fpSignedToFP(z3.RNE(), v.e, z3.Float64()) if is_signed(v.ty)
                           else z3.fpUnsignedToFP(z3.RNE(), v.e, z3.Float64()), 'f64')
            return float(v)
        if kind == 'IntToInt':
            if isinstance(v, Sym):
                fb, tb = INT_BITS[v.ty] if v.ty in INT_BITS else 32, INT_BITS[ty]
                e = v.e
                if tb > fb: e = z3.SignExt(tb - fb, e) if (v.ty in INT_BITS and is_signed(v.ty)) else z3.ZeroExt(tb - fb, e)
                elif tb < fb: e = z3.Extract(tb - 1, 0, e)
                return Sym(e, ty)
            if isinstance(v, str): v = ord(v)
            if isinstance(v, bool): v = int(v)
            if ty == 'char': return chr(v)
            return wrap_int(v, ty)
        if kind == 'Transmute':
            return v
        if kind.startswith('PointerCoercion'):
            if isinstance(v, Ptr) and isinstance(v.cell.v, ArrV) and ty.startswith('&') and '[' in ty:
                return SliceRef(v.cell.v.items, 0, len(v.cell.v.items))
            return v
        if kind in ('PtrToPtr', 'FnPtrToPtr'):
            return v
        if kind == 'FloatToInt':
            if isinstance(v, Sym):
                # Rust `as`: saturating, NaN -> 0
                b = INT_BITS[ty]; lo, hi = int_range(ty)
                f = v.e
                conv = z3.fpToSBV(z3.RTZ(), f, z3.BitVecSort(b)) if is_signed(ty) else z3.fpToUBV(z3.RTZ(), f, z3.BitVecSort(b))
                flo, fhi = z3.FPVal(float(lo), z3.Float64()), z3.FPVal(float(hi), z3.Float64())
                e = z3.If(z3.fpIsNaN(f), z3.BitVecVal(0, b), z3.If(z3.fpLEQ(f, flo), z3.BitVecVal(lo, b), z3.If(z3.fpGEQ(f, fhi), z3.BitVecVal(hi, b), conv)))
                return Sym(e, ty)
            if v != v: return 0
            lo, hi = int_range(ty)
            if v <= lo: return lo
            if v >= hi: return hi
            return int(v)
        if kind == 'FloatToFloat':
            return v
        raise Unsupported(f'cast {kind} to {ty}')


_opcache = {}


def parse_operand_cached(s):
    r = _opcache.get(s)
    if r is None: r = _opcache[s] = parse_operand(s)
    return r


def to_z3(v, ty):
    if isinstance(v, Sym): return v.e
    if ty == 'f64': return z3.FPVal(float(v), z3.Float64())
    if ty == 'bool': return z3.BoolVal(bool(v))
    if ty == 'char': return z3.BitVecVal(ord(v) if isinstance(v, str) else v, 32)
    return z3.BitVecVal(v, INT_BITS[ty])


def sym_eq_bool(v, expected):
    if isinstance(v, Sym):
        return Sym(v.e if expected else z3.Not(v.e), 'bool')
    return bool(v) == expected


def copy_val(v):
    if isinstance(v, Agg):
        a = Agg(v.ty, v.variant, v.vidx, [copy_val(c.v) for c in v.fields])
        return a
    if isinstance(v, ArrV):
        return ArrV([copy_val(c.v) for c in v.items])
    return v


def seq_cells(v):
    if isinstance(v, VecV): return v.items
    if isinstance(v, ArrV): return v.items
    if isinstance(v, SliceRef): return v.cells()
    raise Unsupported(f'not a sequence: {v!r}')



def model_value(mdl, s):
    """python value of Sym s under z3 model mdl"""
    v = mdl.eval(s.e, model_completion=True)
    if s.ty == 'bool':
        return z3.is_true(v)
    if s.ty == 'f64':
        bv = mdl.eval(z3.fpToIEEEBV(s.e), model_completion=True)
        if z3.is_bv_value(bv):
            bits = bv.as_long()
        else:   # NaN has no unique encoding
            bits = 0x7ff8000000000000
        return struct.unpack('<d', struct.pack('<Q', bits))[0]
    if s.ty == 'char':
        return chr(v.as_long())
    return wrap_int(v.as_long(), s.ty)


# ------------------------------------------------------------------ names

def strip_generics(s):
    out, depth, i = [], 0, 0
    while i < len(s):
        if s.startswith('::<', i) and not s.startswith('::<impl ', i) and depth == 0:
            j = i + 2
            d = 0
            while True:
                if s[j] == '<': d += 1
                elif s[j] == '>' and s[j - 1] != '-':
                    d -= 1
                    if d == 0: break
                j += 1
            i = j + 1; continue
        out.append(s[i]); i += 1
    return ''.join(out)


def split_path(s):
    parts, depth, cur = [], 0, ''
    i = 0
    while i < len(s):
        c = s[i]
        if c in '<([{': depth += 1
        elif c in '>)]}' and not (c == '>' and s[i - 1] == '-'): depth -= 1
        if s.startswith('::', i) and depth == 0:
            parts.append(cur); cur = ''; i += 2; continue
        cur += c; i += 1
    parts.append(cur)
    return parts


def type_head(t):
    t = t.strip()
    if t.startswith('&'):
        return '&'
    if t.startswith('['): return '[]'
    if t.startswith('('): return '()'
    if t.startswith('{closure'): return '{closure}'
    if t.startswith('dyn '): return 'dyn'
    # strip generics at the end
    i = t.find('<')
    head = t if i < 0 else t[:i]
    return head.split('::')[-1]


def canon(callee):
    m = re.match(r'^<(.*) as (.*)>::(\w+)(?:::<.*>)?$', callee, re.S)
    if m:
        # find the top-level ' as '
        inner = callee[1:callee.rindex('>::')]
        depth = 0; k = -1
        for i, c in enumerate(inner):
            if c in '<([{': depth += 1
            elif c in '>)]}' and inner[i - 1] != '-': depth -= 1
            elif depth == 0 and inner.startswith(' as ', i): k = i
        ty, tr = inner[:k], inner[k + 4:]
        meth = strip_generics(callee[callee.rindex('>::') + 3:])
        return f'<{type_head(ty)} as {type_head(tr)}>::{meth}'
    s = strip_generics(callee)
    parts = split_path(s)
    def seg(p):
        mm = re.match(r'^<impl (.*)>$', p, re.S)
        if mm: return type_head(mm.group(1))
        return type_head(p) if '<' in p else p
    parts = [seg(p) for p in parts]
    return '::'.join(parts[-2:]) if len(parts) >= 2 else parts[0]


MODELS = {}
PATTERN_MODELS = []


def model(*keys):
    def deco(fn):
        for k in keys:
            if isinstance(k, str): MODELS[k] = fn
            else: PATTERN_MODELS.append((k, fn))
        return fn
    return deco


from . import models  # noqa: E402
