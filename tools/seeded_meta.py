#!/usr/bin/env python3
"""usage: tools/seeded_meta.py <seeded dir> <property> <caught-by: comma list or 'none'> [note]  -- writes meta.json"""
import json, sys, os
d, prop, caught = sys.argv[1], sys.argv[2], sys.argv[3]
note = sys.argv[4] if len(sys.argv) > 4 else ''
am = json.load(open(os.path.join(d, 'agent_meta.json')))
meta = {
    'property': prop,
    'summary': am.get('summary'),
    'needs_to_manifest': am.get('needs'),
    'origin': 'written by an independent sub-agent that saw only the property text and a scratch worktree',
    'confirmed': 'tools/seeded_verify.sh: patch applies and compiles on /repo HEAD in a scratch worktree; existing suite 100/100 with the patch; demo.rs fails with the patch and passes without it',
    'checks_run': 'tools/seeded_run.sh <patch> <checks> (git -C /repo apply; ./check <id> --tier quick; git -C /repo checkout -- .)',
    'caught_by': [] if caught == 'none' else caught.split(','),
    'note': note,
    'agent_ran': am.get('ran'),
}
json.dump(meta, open(os.path.join(d, 'meta.json'), 'w'), indent=1)
