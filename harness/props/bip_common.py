"""Helpers shared by the built-in predicate / function harnesses (C12-C17)."""
import z3
from mirsym.machine import Sym, PathInfeasible
from ..engine import Violation
from .. import refunify as R
from .. import universe as U


def sym_char(m, name, lo=0x20, hi=0x7ff):
    c = m.fresh(name, 'char')
    if isinstance(c, Sym):
        m.assume(Sym(z3.And(z3.UGE(c.e, lo), z3.ULE(c.e, hi)), 'bool'))
    return c


def sym_atom(m, name, n, lo=0x20, hi=0x7ff):
    cs = tuple(sym_char(m, '%s.c%d' % (name, i), lo, hi) for i in range(n))
    if all(isinstance(c, str) for c in cs): return ('atom', ''.join(cs))
    return ('atom', cs)


def sym_int(m, name): return ('int', m.fresh(name, 'i64'))


def sym_float(m, name, nan_ok=True):
    x = m.fresh(name, 'f64')
    if not nan_ok and isinstance(x, Sym):
        m.assume(Sym(z3.Not(z3.fpIsNaN(x.e)), 'bool'))
    return ('float', x)


class Env:
    """terms + a substitution set built by real unifications; hands out fresh variable ids"""
    def __init__(self, drv, first_id=1):
        self.drv = drv; self.ss = drv.ss0(); self.next_id = first_id; self.bound = {}

    def var(self, name=None):
        i = self.next_id; self.next_id += 1
        return ('var', i, name or '$V%d' % i)

    def bind(self, v, value):
        r = self.drv.unify(self.drv.term(v), self.drv.term(value), self.ss)
        if r.h is None: raise PathInfeasible()
        self.ss = r; self.bound[v[1]] = value

    def via_chain(self, value, chain):
        """a term that denotes `value`: literally (0) or through `chain` variables"""
        if chain == 0: return value
        v = self.var(); self.bind(v, value)
        for _ in range(chain - 1):
            w = self.var(); self.bind(w, v); v = w
        return v


def run_goal(drv, kb, goal, ss, times=2):
    """make a solution node for `goal` under ss and ask for `times` solutions -> list of ss registers"""
    n = drv.node(drv.goal(goal), kb, ss)
    return [drv.next(n) for _ in range(times)]


def unchanged(m, before, after, struct_eq):
    return len(before) == len(after) and all(struct_eq(m, a, b) for a, b in zip(before, after))
