//! Minimal JSON reader (no external crates are needed by vreplay).
#[derive(Debug, Clone)]
pub enum J { Null, Bool(bool), Num(f64, String), Str(String), Arr(Vec<J>), Obj(Vec<(String, J)>) }

impl J {
    pub fn get(&self, k: &str) -> &J {
        if let J::Obj(v) = self { for (kk, vv) in v { if kk == k { return vv; } } }
        &J::Null
    }
    pub fn arr(&self) -> &Vec<J> { if let J::Arr(v) = self { v } else { panic!("vreplay: expected array, got {:?}", self) } }
    pub fn str(&self) -> &str { if let J::Str(s) = self { s } else { panic!("vreplay: expected string, got {:?}", self) } }
    pub fn i64(&self) -> i64 { if let J::Num(_, s) = self { s.parse::<i64>().unwrap() } else { panic!("vreplay: expected int, got {:?}", self) } }
    pub fn u64(&self) -> u64 { if let J::Num(_, s) = self { s.parse::<u64>().unwrap() } else { panic!("vreplay: expected uint, got {:?}", self) } }
    pub fn usize(&self) -> usize { self.u64() as usize }
    pub fn bool(&self) -> bool { if let J::Bool(b) = self { *b } else { panic!("vreplay: expected bool, got {:?}", self) } }
    pub fn is_null(&self) -> bool { matches!(self, J::Null) }
}

pub struct P<'a> { s: &'a [u8], i: usize }

pub fn parse(text: &str) -> J { let mut p = P { s: text.as_bytes(), i: 0 }; let v = p.value(); v }

impl<'a> P<'a> {
    fn ws(&mut self) { while self.i < self.s.len() && (self.s[self.i] as char).is_whitespace() { self.i += 1; } }
    fn value(&mut self) -> J {
        self.ws();
        match self.s[self.i] {
            b'n' => { self.i += 4; J::Null }
            b't' => { self.i += 4; J::Bool(true) }
            b'f' => { self.i += 5; J::Bool(false) }
            b'"' => J::Str(self.string()),
            b'[' => {
                self.i += 1; let mut v = vec![];
                loop { self.ws(); if self.s[self.i] == b']' { self.i += 1; break; }
                       v.push(self.value()); self.ws();
                       if self.s[self.i] == b',' { self.i += 1; } }
                J::Arr(v)
            }
            b'{' => {
                self.i += 1; let mut v = vec![];
                loop { self.ws(); if self.s[self.i] == b'}' { self.i += 1; break; }
                       let k = self.string(); self.ws(); assert!(self.s[self.i] == b':'); self.i += 1;
                       let val = self.value(); v.push((k, val)); self.ws();
                       if self.s[self.i] == b',' { self.i += 1; } }
                J::Obj(v)
            }
            _ => {
                let st = self.i;
                while self.i < self.s.len() && (b"+-0123456789.eE".contains(&self.s[self.i])) { self.i += 1; }
                let t = std::str::from_utf8(&self.s[st..self.i]).unwrap().to_string();
                J::Num(t.parse::<f64>().unwrap_or(0.0), t)
            }
        }
    }
    fn string(&mut self) -> String {
        assert!(self.s[self.i] == b'"'); self.i += 1;
        let mut out: Vec<u16> = vec![]; let mut res = String::new();
        fn flush(out: &mut Vec<u16>, res: &mut String) { if !out.is_empty() { res.push_str(&String::from_utf16_lossy(out)); out.clear(); } }
        loop {
            let c = self.s[self.i];
            if c == b'"' { self.i += 1; break; }
            if c == b'\\' {
                let d = self.s[self.i + 1]; self.i += 2;
                match d {
                    b'n' => { flush(&mut out, &mut res); res.push('\n') }
                    b't' => { flush(&mut out, &mut res); res.push('\t') }
                    b'r' => { flush(&mut out, &mut res); res.push('\r') }
                    b'b' => { flush(&mut out, &mut res); res.push('\u{8}') }
                    b'f' => { flush(&mut out, &mut res); res.push('\u{c}') }
                    b'u' => { let h = std::str::from_utf8(&self.s[self.i..self.i + 4]).unwrap();
                              out.push(u16::from_str_radix(h, 16).unwrap()); self.i += 4; }
                    other => { flush(&mut out, &mut res); res.push(other as char) }
                }
            } else {
                flush(&mut out, &mut res);
                // copy one UTF-8 scalar
                let st = self.i; self.i += 1;
                while self.i < self.s.len() && (self.s[self.i] & 0xC0) == 0x80 { self.i += 1; }
                res.push_str(std::str::from_utf8(&self.s[st..self.i]).unwrap());
            }
        }
        flush(&mut out, &mut res);
        res
    }
}

pub fn quote(s: &str) -> String {
    let mut o = String::from("\"");
    for c in s.chars() {
        match c {
            '"' => o.push_str("\\\""), '\\' => o.push_str("\\\\"), '\n' => o.push_str("\\n"),
            '\r' => o.push_str("\\r"), '\t' => o.push_str("\\t"),
            c if (c as u32) < 0x20 => o.push_str(&format!("\\u{:04x}", c as u32)),
            c => o.push(c),
        }
    }
    o.push('"'); o
}
