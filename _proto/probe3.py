import sys, time
sys.path.insert(0, '.')
from mirsym import *
from models import *
m = Machine(open('/tmp/mirprobe/suiron0.mir').read(), '/repo/src')
ALPHA = 'a1$_(),[]| .-+"\\='
def sym_str(m, n, tag='c'):
    chars=[]
    for i in range(n):
        c = m.fresh(f'{tag}{i}','char')
        m.pc.append(z3.Or([c.e == ord(x) for x in ALPHA]))
        chars.append(c)
    return RStr(chars)
import collections
def h(m):
    n = N
    s = sym_str(m, n)
    try:
        r = m.call('parse_terms::parse_term', [StrRef(s)])
        out = ('ok' if r.vidx==0 else 'err')
    except RustPanic as e:
        out = 'PANIC: '+str(e)[:60]
    mod = m.model()
    w = ''.join(chr(mod.eval(c.e, model_completion=True).as_long()) for c in s.chars)
    return out, w
for N in (1,2,3):
    t0=time.time(); m.stats={'solver_calls':0,'forks':0}
    res = m.explore(h)
    cnt = collections.Counter(r[0] for d,r in res)
    print(N, len(res), dict(cnt), round(time.time()-t0,2), m.stats)
    for d,r in res:
        if r[0].startswith('PANIC'): print('   ', r)
