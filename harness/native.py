"""Run a concrete scenario on the natively compiled crate (vreplay) and collect its observations."""
import json, os, subprocess, tempfile, re

from .build import CACHE


def vreplay_bin(profile='debug', hooks=False):
    d = 'vreplay-target-hooks' if hooks else 'vreplay-target'
    return os.path.join(CACHE, d, profile, 'vreplay')


_OBS = re.compile(r'\n@@OBS (\d+) ("(?:[^"\\]|\\.)*")\n')


def run_native(scenario, timeout=10.0, profile='debug', hooks=False):
    """-> dict(obs=[str], outs=[str], status='ok'|'hang'|'crash:<rc>', n=len(ops))"""
    text = json.dumps(scenario, ensure_ascii=False)
    n = len(scenario['ops'])
    try:
        p = subprocess.run([vreplay_bin(profile, hooks)], input=text.encode('utf-8'), capture_output=True, timeout=timeout)
        out, rc, status = p.stdout, p.returncode, None
    except subprocess.TimeoutExpired as e:
        out, rc, status = e.stdout or b'', None, 'hang'
    out = out.decode('utf-8', errors='replace')
    obs, outs = [], []
    pos = 0
    for mt in _OBS.finditer(out):
        outs.append(out[pos:mt.start()])
        obs.append(json.loads(mt.group(2)))
        pos = mt.end()
    tail = out[pos:]
    if status is None:
        if rc == 0 and len(obs) == n: status = 'ok'
        elif rc == 3: status = 'harness-error'
        else: status = 'crash:%s' % rc
    if status == 'hang' and len(obs) < n:
        obs.append('HANG'); outs.append(tail)
    elif status.startswith('crash') and len(obs) < n:
        obs.append('CRASH'); outs.append(tail)
    return {'obs': obs, 'outs': outs, 'status': status, 'n': n,
            'stderr': (p.stderr.decode('utf-8', 'replace')[-500:] if status != 'hang' else '')}


_ELAPSED = re.compile(r'\d+ seconds? \d+ microseconds ')


def norm_out(s):
    """time(...) prints the measured duration: the digits differ from run to run (and the executor's clock is a stub)"""
    return _ELAPSED.sub('<elapsed> ', s)


def compare(mine_obs, mine_outs, nat):
    """compare mirsym-concrete observations with native ones; returns list of mismatch descriptions"""
    bad = []
    for i, (a, o) in enumerate(zip(mine_obs, mine_outs)):
        if i >= len(nat['obs']):
            bad.append('op %d: native run ended early (%s)' % (i, nat['status'])); break
        b, bo = nat['obs'][i], nat['outs'][i]
        if a is None: continue
        ka, kb = a.split(':', 1)[0], b.split(':', 1)[0]
        if ka in ('PANIC', 'HANG') or kb in ('PANIC', 'HANG', 'CRASH'):
            same = (ka == kb) or (ka == 'HANG' and kb == 'CRASH') or (ka == 'PANIC' and kb == 'CRASH')
            if not same: bad.append('op %d: mirsym %r vs native %r' % (i, a[:200], b[:200]))
            break
        if a != b: bad.append('op %d: mirsym %r vs native %r' % (i, a[:300], b[:300]))
        if norm_out(o) != norm_out(bo): bad.append('op %d: output mirsym %r vs native %r' % (i, o[:300], bo[:300]))
    return bad
