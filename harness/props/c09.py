"""C09 - the anonymous variable matches anything and never binds."""
from . import unify_common as UC
from . import c06
from .. import universe as U
from .. import refunify as R
from ..engine import Violation

ANCHORS = UC.ANCHORS + ['recreate_variables', 'next_solution']
WITNESSES = {'all': ['top-level-anon', 'embedded-anon', 'sequence', 'with-prior', 'anon-in-head-or-query', 'anon-in-body']}
OPTS = {'quick': {'selfcheck_mod': 60, 'budget_s': 240}, 'thorough': {'selfcheck_mod': 1000, 'budget_s': 2400}}
BOUNDS = {
    'quick': '(a) every term T of the C06 universe with size <= 3 against `$_` in both operand orders, under the empty substitution and under 12 real priors; '
             '(b) every ordered pair of the C06 quick universe in which `$_` occurs (argument, list element, list tail), judged by the reference unifier; '
             '(c) sequences X = $_ (either operand order) then X = T, compared with X = T alone, T of size <= 2, plus is_bound(X) after the first step; '
             '(d) programs: every head/goal pair of the C07 family in which `$_` occurs (fact fetched with get_rule, query built with make_query, unified both ways and run through the search), and 17 rule bodies using `$_` in calls, `=`, list patterns and under not, with 3 queries each (incl. t($_)), answers compared with the reference',
    'thorough': 'same with the C06 thorough universe (size(A)+size(B) <= 5) and T of size <= 3 in sequences',
}
OUTSIDE = c06.OUTSIDE
ASSUMPTIONS = c06.ASSUMPTIONS


def cases(tier, seed):
    out = []
    tp = U.terms(c06.LEAVES_Q, c06.TAILS, 3, 1, styles=('p', 'm'))
    tp = [t for t in tp if not (t[0] == 'l' and t[1] == 'm' and U.kind(t[2][-1] if t[3] is None else t[3]) == 'list')]
    for t in tp:
        for pri in [[]] + [[list(p)] for p in c06.PRIORS]:
            if pri and U.size(t) > (1 if tier == 'quick' else 2): continue
            out.append({'id': 'top %s|%d' % (U.text(t), len(out)), 'fam': 'top', 'T': t, 'priors': pri})
    for c in c06.cases(tier, seed):
        if U.has(c['A'], '_') or U.has(c['B'], '_'):
            c['fam'] = 'emb'; out.append(c)
    mx = 2 if tier == 'quick' else 3
    for t in tp:
        if U.size(t) > mx or U.has(t, '_') and t == ['_']: continue
        for order in (0, 1):
            out.append({'id': 'seq %d %s|%d' % (order, U.text(t), len(out)), 'fam': 'seq', 'T': t, 'order': order})
    # programs using `$_` in heads and queries: the head/goal pairs of C07 in which `$_` occurs, through get_rule / make_query / the search
    from . import c07
    for c in c07.cases(tier, seed):
        if c.get('fam') == 'hg' and (U.has(c['A'], '_') or U.has(c['B'], '_')):
            c = dict(c); c['id'] = 'program ' + c['id']; out.append(c)
    # ... and in bodies
    from ..progs import V, A, C, L, I, gc, gb, AND, OR, NOT, U as UNI, X, Y, Z
    from . import prog_common as PC
    from .. import progs as P
    AN = ('anon',)
    bodies = [gc('r', X, AN), gc('r', AN, X), AND(gc('r', AN, X), gc('p', AN)), AND(UNI(X, AN), UNI(X, A('b'))), AND(UNI(AN, X), gc('q', X)), gc('pr', AN, X, Z),
              AND(gc('pr', X, AN, Z), UNI(X, A('a'))), gc('member', AN, L(X, A('k'))), AND(gc('l', L(AN, tail=AN)), gc('p', X)), AND(gc('l', L(X, tail=AN))),
              AND(gc('h', L(AN, tail=Y)), UNI(Y, L(X)), gc('p', X)), AND(gc('p', X), NOT(gc('r', X, AN))), OR(UNI(X, AN), gc('q', X)), AND(gc('eq', AN, X), gc('p', X)),
              AND(gc('eq', X, AN), gc('eq', AN, X), UNI(X, I(1))), gc('any2', X, AN), AND(gc('u', X), gc('any', X))]
    for b in bodies:
        cl = [(C('t', X), b)]
        for q in (C('t', X), C('t', A('b')), C('t', AN)):
            out.append({'id': 'body %s ?- %s|%d' % (P.ctext(cl[0]), P.ttext(q), len(out)), 'fam': 'prog', 'clauses': PC.jsonable(tuple(cl)), 'query': PC.jsonable(q)})
    return out


def run_top(drv, case):
    m = drv.m
    vars_seen = {}
    ss, sub = UC.apply_priors(drv, case, drv.ss0(), {}, vars_seen)
    t = U.inst(m, case['T'], 'T')
    tt, an = drv.term(t), drv.term(('anon',))
    before = drv.dumpss(ss)
    tags = ['top-level-anon'] + (['with-prior'] if case['priors'] else [])
    for (x, y, nm) in ((tt, an, 'T = $_'), (an, tt, '$_ = T')):
        r = drv.unify(x, y, ss)
        desc = '%s with T = %s%s' % (nm, U.text(case['T']), '' if not case['priors'] else ' after ' + ', '.join('%s = %s' % (U.text(p), U.text(q)) for p, q in case['priors']))
        if r.h is None:
            raise Violation('anon-fails:' + U.kind(case['T']), desc + ': unification with the anonymous variable fails')
        after = drv.dumpss(r)
        if len(after) != len(before) or any(not UC.struct_eq(m, a, b) for a, b in zip(after, before)):
            raise Violation('anon-binds:' + U.kind(case['T']), '%s: substitution changed from %s to %s' % (desc, [R.show(e) if e else '-' for e in before], [R.show(e) if e else '-' for e in after]))
    return {'tags': tags, 'note': 'T = %s' % U.text(case['T'])}


def run_seq(drv, case):
    m = drv.m
    x = drv.term(('var', 6, '$V6'))
    an = drv.term(('anon',))
    t = U.inst(m, case['T'], 'T')
    tt = drv.term(t)
    ss0 = drv.ss0()
    s1 = drv.unify(x, an, ss0) if case['order'] == 0 else drv.unify(an, x, ss0)
    desc = '%s then $V6 = %s' % ('$V6 = $_' if case['order'] == 0 else '$_ = $V6', U.text(case['T']))
    if s1.h is None: raise Violation('anon-fails:var', desc + ': first step fails')
    if drv.isbound(x, s1):
        raise Violation('anon-binds:var', desc + ': $V6 is bound after being unified with $_')
    s2 = drv.unify(x, tt, s1)
    ref = drv.unify(x, tt, ss0)
    if (s2.h is None) != (ref.h is None):
        raise Violation('anon-changes-later:' + U.kind(case['T']), '%s: %s, but $V6 = T alone %s' % (desc, 'fails' if s2.h is None else 'succeeds', 'fails' if ref.h is None else 'succeeds'))
    if s2.h is not None:
        a, b = drv.dumpss(s2), drv.dumpss(ref)
        ra, rb = drv.resolve(x, s2), drv.resolve(x, ref)
        if not UC.struct_eq(m, ra, rb):
            raise Violation('anon-changes-later:' + U.kind(case['T']), '%s: $V6 resolves to %s instead of %s' % (desc, R.show(ra), R.show(rb)))
        if len(a) != len(b) or any(not UC.struct_eq(m, p, q) for p, q in zip(a, b)):
            raise Violation('anon-changes-later:' + U.kind(case['T']), '%s: bindings differ from those of $V6 = T alone' % desc)
    return {'tags': ['sequence'], 'note': desc}


def run(drv, case):
    if case['fam'] == 'hg':
        from . import c07
        info = c07.run_hg(drv, case)
        info['tags'] = info.get('tags', []) + ['anon-in-head-or-query']
        return info
    if case['fam'] == 'prog':
        from . import prog_common as PC
        run_, ref, tags, desc = PC.run_and_compare(drv, case, check_output=False)
        if run_ is None: return {'tags': tags, 'nontrivial': False}
        return {'tags': tags + ['anon-in-body'], 'note': desc}
    if case['fam'] == 'top': return run_top(drv, case)
    if case['fam'] == 'seq': return run_seq(drv, case)
    info = UC.check_mgu(drv, case)
    info['tags'] = info.get('tags', []) + ['embedded-anon']
    return info
