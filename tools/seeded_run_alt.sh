#!/bin/bash
# usage: tools/seeded_run_alt.sh <patch.diff> <check id>...
# Same as seeded_run.sh but on a scratch worktree of /repo (VERIF_REPO), so /repo and evidence/ are never touched.
set -u
P=$(realpath "$1"); shift
W=$(mktemp -d /tmp/seedalt.XXXXXX); rmdir "$W"
git -C /repo worktree add -q --detach "$W" HEAD || exit 2
cp /repo/Cargo.lock "$W"/ 2>/dev/null
git -C "$W" apply "$P" || { echo "patch does not apply"; git -C /repo worktree remove --force "$W"; exit 2; }
cd /verif
for c in "$@"; do
  out=$(VERIF_REPO="$W" VERIF_JOBS=${VERIF_JOBS:-12} timeout 1800 ./check $c --tier ${TIER:-quick} 2>&1); rc=$?
  echo "== $c rc=$rc"
  echo "$out" | grep -E "^VIOLATION|^  |^INCONCLUSIVE|^C[0-9]+ " | cut -c1-260 | head -${LINES_MAX:-6}
done
git -C /repo worktree remove --force "$W"
rm -rf /verif/.cache-alt-$(python3 -c "import hashlib,sys; print(hashlib.sha1(sys.argv[1].encode()).hexdigest()[:8])" "$W")
