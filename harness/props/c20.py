"""C20 - a term's meaning does not depend on where it is written."""
import z3
from mirsym.machine import Sym
from ..engine import Violation
from ..driver import ScenarioEnd
from .. import grammar as G
from .. import refunify as R
from .unify_common import struct_eq
from .c19 import CLS, txt

ANCHORS = ['parse_term', 'parse_arguments', 'make_term', 'parse_linked_list', 'get_left_and_right', 'parse_query', 'parse_subgoal']
WITNESSES = {'all': ['alone', 'complex-argument', 'list-element', 'infix-operand', 'query-argument', 'builtin-argument', 'signed-number', 'symbolic-position']}
OPTS = {'quick': {'selfcheck_mod': 25, 'budget_s': 280}, 'thorough': {'selfcheck_mod': 300, 'budget_s': 3000}}
STEP_LIMIT = 600_000
BOUNDS = {
    'quick': 'term texts of the C19 grammar to depth 1 plus signed numbers (-3, +7, -3.8, +0.5), punctuation atoms (\\,) and quoted atoms; each text as written and with every 2nd '
             'letter/digit position symbolic; parsed (1) alone by parse_term, (2) as f(T) and f(x, T) by parse_complex, (3) as [T] and [x, T] by parse_linked_list, '
             '(2b) as a later argument after siblings `.`, `readme.txt`, 2.5, -3, a quoted atom, a list and a complex term; (4) as right and left operand of `=` and right operand of `<` by parse_subgoal, (5) as q(T) by parse_query, (6) as argument of print(T) and append(T, $X) by parse_subgoal; '
             'all results must be the same term (query variables compared by name)',
    'thorough': 'depth 2 and every replaceable position symbolic',
}
OUTSIDE = 'texts containing an infix operator at top level (they are goals or function sugar, not operands); texts beyond the depth bound'
ASSUMPTIONS = ['variables are compared by name: make_query gives query variables fresh ids, all other contexts leave id 0']

EXTRA = [G.fixed('-') + G.T('3', 'n'), G.fixed('+') + G.T('7', 'n'), G.fixed('-') + G.T('3.8', 'd-n'), G.fixed('+') + G.T('0.5', 'd-n'), G.fixed('\\,'),
         G.fixed('"') + G.T('a b', 'l-l') + G.fixed('"'), G.fixed('-') + G.T('12', 'nd'), G.fixed('$') + G.T('X1', 'ud'),
         # literals longer than an i64 can be (floats may be), the longest integers, a long atom, punctuation atoms
         G.fixed('3.14159265358979323846'), G.fixed('-0.00000000000000000001'), G.fixed('+602214076000000000000000.5'), G.fixed('-1234567890123456789'),
         G.fixed('9223372036854775807'), G.fixed('abcdefghijklmnopqrstuvwxyz'), G.fixed('.'), G.fixed('?'), G.fixed('readme.txt'), G.fixed('St. John')]


def cases(tier, seed):
    out = []
    d = 1 if tier == 'quick' else 2
    step = 2 if tier == 'quick' else 1
    for t in G.terms(d) + EXTRA:
        s = G.s(t)
        out.append({'id': repr(s), 'text': t, 'pos': []})
        rep = [i for i, (c, k) in enumerate(t) if k != '-']
        for j, i in enumerate(rep):
            if j % step == 0: out.append({'id': '%r pos %d' % (s, i), 'text': t, 'pos': [i]})
    return out


def strip_ids(t):
    k = t[0]
    if k == 'var': return ('var', 0, t[2])
    if k == 'cplx': return ('cplx', tuple(strip_ids(x) for x in t[1]))
    if k == 'func': return ('func', t[1], tuple(strip_ids(x) for x in t[2]))
    if k == 'node': return ('node', strip_ids(t[1]), strip_ids(t[2]), t[3], t[4])
    return t


def first_elem(lst): return lst[1]
def second_elem(lst): return lst[2][1]


def run(drv, case):
    m = drv.m
    chars = []
    for i, (c, k) in enumerate(case['text']):
        if i in case['pos']:
            v = m.fresh('c%d' % i, 'char')
            if isinstance(v, Sym):
                lo, hi = CLS[k]
                m.assume(Sym(z3.And(z3.UGE(v.e, lo), z3.ULE(v.e, hi)), 'bool'))
            chars.append(v)
        else: chars.append(c)
    T = chars
    L = lambda s: list(s)
    contexts = [
        ('complex-argument', 'complex', L('f(') + T + L(')'), lambda v: v[1][1]),
        ('complex-argument', 'complex', L('f(x, ') + T + L(')'), lambda v: v[1][2]),
        # after siblings that leave the argument scanner in every state: a period, digits, a sign, quotes, brackets
        ('complex-argument', 'complex', L('f(., ') + T + L(')'), lambda v: v[1][2]),
        ('complex-argument', 'complex', L('f(readme.txt, a, ') + T + L(')'), lambda v: v[1][3]),
        ('complex-argument', 'complex', L('f(2.5, ') + T + L(')'), lambda v: v[1][2]),
        ('complex-argument', 'complex', L('f(-3, ') + T + L(', x)'), lambda v: v[1][2]),
        ('complex-argument', 'complex', L('f("a, b", [1.5], g(7), ') + T + L(')'), lambda v: v[1][4]),
        ('list-element', 'list', L('[., 2.5, ') + T + L(']'), lambda l: l[2][2][1]),
        ('query-argument', 'query', L('q(., ') + T + L(')'), lambda g: g[1][1][2]),
        ('builtin-argument', 'subgoal', L('print(., ') + T + L(')'), lambda g: g[2][1]),
        # no space after the comma
        ('complex-argument', 'complex', L('f(x,') + T + L(',y)'), lambda v: v[1][2]),
        ('list-element', 'list', L('[x,') + T + L(']'), second_elem),
        ('builtin-argument', 'subgoal', L('print(x,') + T + L(')'), lambda g: g[2][1]),
        ('query-argument', 'query', L('q(x,') + T + L(')'), lambda g: g[1][1][2]),
        ('list-element', 'list', L('[') + T + L(']'), first_elem),
        ('list-element', 'list', L('[x, ') + T + L(']'), second_elem),
        ('infix-operand', 'subgoal', L('$Z = ') + T, lambda g: g[2][1]),
        ('infix-operand', 'subgoal', T + L(' = $Z'), lambda g: g[2][0]),
        ('infix-operand', 'subgoal', L('$Z < ') + T, lambda g: g[2][1]),
        ('query-argument', 'query', L('q(') + T + L(')'), lambda g: g[1][1][1]),
        ('builtin-argument', 'subgoal', L('print(') + T + L(')'), lambda g: g[2][0]),
        ('builtin-argument', 'subgoal', L('append(') + T + L(', $X)'), lambda g: g[2][0]),
    ]
    desc = case['id']
    tags = ['alone'] + (['symbolic-position'] if case['pos'] else [])
    if G.s(case['text'])[0] in '+-': tags.append('signed-number')
    try:
        r0, res0 = drv.parse('term', T)
        if res0[0] != 'ok':
            raise Violation('rejected-alone', '%s: parse_term rejects %r' % (desc, txt(T)))
        base = strip_ids(drv.dump(r0))
        for tag, entry, text, pick in contexts:
            r, res = drv.parse(entry, text)
            if res[0] != 'ok':
                raise Violation('rejected:%s:%s' % (tag, entry), '%s: %r is rejected: %s' % (desc, txt(text), txt(res[1].chars)[:120]))
            v = drv.dump(r)
            try:
                got = strip_ids(pick(v))
            except (IndexError, TypeError):
                raise Violation('different-shape:%s:%s' % (tag, entry), '%s: %r parses to %s' % (desc, txt(text), v))
            if not struct_eq(m, base, got):
                raise Violation('different-term:%s:%s' % (tag, entry), '%s: alone it is %s, in %r it is %s' % (desc, R.show(base) + ' <' + base[0] + '>', txt(text), R.show(got) + ' <' + got[0] + '>'))
            if tag not in tags: tags.append(tag)
    except ScenarioEnd as e:
        raise Violation('%s' % e.why[0], '%s: %s: %s' % (desc, e.why[0], e.why[1][:200]))
    return {'tags': tags, 'note': desc}
