"""C07 - unification is symmetric (as written, and as head/goal unification after the real renaming)."""
from . import unify_common as UC
from . import c06
from .. import universe as U
from .. import refunify as R
from ..engine import Violation
from ..driver import ScenarioEnd

ANCHORS = UC.ANCHORS + ['recreate_variables', 'get_rule', 'make_query']
WITNESSES = {'all': ['success', 'failure', 'binds', 'with-prior', 'head-goal', 'head-goal-through-search']}
OPTS = {'quick': {'selfcheck_mod': 100, 'budget_s': 240}, 'thorough': {'selfcheck_mod': 2000, 'budget_s': 2400}}
BOUNDS = {
    'quick': 'unordered pairs {A,B} of the C06 quick universe (size(A)+size(B) <= 3, depth <= 1), each unified in both orders under the same '
             'substitution (empty, or one of 12 real prior unifications for leaf pairs); head/goal family: fact t(A) fetched with get_rule vs '
             'query t(B) built with make_query (unified both ways, and run through make_base_node + next_solution against the reference answers), A,B of total size <= 3 (<= 4 when both are lists) over {a, symbolic int, $X, $Y, $_, [], [..], [..|$T]}, both orders',
    'thorough': 'unordered pairs with size(A)+size(B) <= 5 (depth 1), <= 3 (depth 2); priors as in C06 thorough; head/goal family with sizes <= 3',
}
OUTSIDE = c06.OUTSIDE
ASSUMPTIONS = c06.ASSUMPTIONS

HG_LEAVES = [['a'], ['i'], ['w', '$X'], ['w', '$Y'], ['_']]
HG_TAILS = [['w', '$T'], ['_']]


def hg_inst(m, sh, path):
    if sh[0] == 'w': return ('var', 0, sh[1])
    if sh[0] == 'l':
        elems = tuple(hg_inst(m, x, '%s.%d' % (path, i)) for i, x in enumerate(sh[2]))
        tail = None if sh[3] is None else hg_inst(m, sh[3], path + '.t')
        return ('plist', elems, tail)
    if sh[0] in ('f', 'g'):
        return ('cplx', (('atom', sh[0]),) + tuple(hg_inst(m, x, '%s.%d' % (path, i)) for i, x in enumerate(sh[1:])))
    return U.inst(m, sh, path)


def hg_text(sh):
    if sh[0] == 'w': return sh[1]
    if sh[0] == 'l':
        s = ', '.join(hg_text(x) for x in sh[2])
        if sh[3] is not None: s += ' | ' + hg_text(sh[3])
        return '[' + s + ']'
    if sh[0] in ('f', 'g'): return sh[0] + '(' + ', '.join(hg_text(x) for x in sh[1:]) + ')'
    return U.text(sh)


def cases(tier, seed):
    out = []
    seen = set()
    for c in c06.cases(tier, seed):
        key = tuple(sorted([repr(c['A']), repr(c['B'])])) + (repr(c['priors']),)
        if key in seen: continue
        seen.add(key)
        c['fam'] = 'sym'; out.append(c)
    mx = 2 if tier == 'quick' else 3
    ts = U.terms(HG_LEAVES, HG_TAILS, mx, 1, styles=('p',))
    for a in ts:
        for b in ts:
            if U.size(a) + U.size(b) > mx + 1 and not (a[0] == 'l' and b[0] == 'l' and U.size(a) + U.size(b) <= mx + 2): continue
            out.append({'id': 'hg %s / %s|%d' % (hg_text(a), hg_text(b), len(out)), 'fam': 'hg', 'A': a, 'B': b})
    return out


def run_hg(drv, case):
    m = drv.m
    a = hg_inst(m, case['A'], 'A'); b = hg_inst(m, case['B'], 'B')
    t = ('atom', 't')
    fact = drv.rule(drv.term(('cplx', (t, a))))
    kb = drv.kb([fact])
    q = drv.query([drv.term(t), drv.term(b)])
    goal = drv.gterm(q)
    rule = drv.getrule(kb, 't/1', 0)
    head = drv.head(rule)
    ph, pg = drv.dump(head), drv.dump(goal)
    ah, ag = R.abst(ph), R.abst(pg)
    desc = 'fact t(%s) against query t(%s)' % (hg_text(case['A']), hg_text(case['B']))
    bad = R.has_bad(ah) or R.has_bad(ag)
    if bad:
        raise Violation('renaming-breaks-list', '%s: after renaming a list is ill-formed (%s): head %s, goal %s' % (desc, bad, R.show(ph), R.show(pg)))
    vars_seen = {}
    R.vars_of(ah, vars_seen); R.vars_of(ag, vars_seen)
    ss = drv.ss0()
    r1 = drv.unify(head, goal, ss)
    r2 = drv.unify(goal, head, ss)
    try:
        sub = R.unify(m, ah, ag, {})
    except R.OccursCheck:
        return {'tags': ['occurs-check-outside-claim'], 'nontrivial': False}
    kk = '%s~%s' % (U.kind(case['A']) if case['A'][0] != 'w' else 'var', U.kind(case['B']) if case['B'][0] != 'w' else 'var')
    if (r1.h is None) != (r2.h is None):
        raise Violation('hg-asymmetric-success:' + kk, '%s: head.unify(goal) %s, goal.unify(head) %s' % (desc, 'succeeds' if r1.h is not None else 'fails', 'succeeds' if r2.h is not None else 'fails'))
    if (r1.h is None) != (sub is None):
        raise Violation('hg-success-mismatch:' + kk, '%s: both orders %s, the renamed terms %s unify' % (desc, 'succeed' if r1.h is not None else 'fail', 'do' if sub is not None else 'do not'))
    tags = ['head-goal']
    if r1.h is not None:
        tags.append('success')
        for r in (r1, r2):
            after = drv.dumpss(r)
            why = []
            if R.impl_chain_ok(after) is not None or not UC.same_state(m, after, sub, vars_seen, why):
                raise Violation('hg-bindings:' + kk, '%s: %s' % (desc, '; '.join(why) or 'binding cycle'))
    else:
        tags.append('failure')
    # the same pair through the search itself (fetching the fact, whatever tests precede the unification, the answer)
    from .. import progs as P
    from .. import refsld as S
    clauses = [(('cplx', (t, a)), None)]
    query = ('cplx', (t, b))
    try:
        ref = P.ref_search(m, clauses, query, 3)
    except S.Outside:
        return {'tags': tags, 'note': desc}
    try:
        run_ = P.impl_search(drv, kb, query, 3, 0)
    except ScenarioEnd as e:
        raise Violation('hg-search-%s' % e.why[0], '%s: the search %s' % (desc, e.why[1][:200]))
    problem = P.compare_runs(m, run_, ref, desc)
    if problem is not None: raise Violation('hg-search-' + problem[0] + ':' + kk, problem[1])
    tags.append('head-goal-through-search')
    return {'tags': tags, 'note': desc}


def run(drv, case):
    if case.get('fam') == 'hg': return run_hg(drv, case)
    return UC.check_mgu(drv, case, symmetric=True)
