#!/usr/bin/env python3-vt
"""usage: VERIF_REPO=<dir> VERIF_REUSE_MIR=1 tools/debug_case.py <prop module e.g. c10> <substring of case id> [tier]
runs the first path of the matching cases in-process and prints status/info (debugging aid, not a check)"""
import sys, os
sys.path.insert(0, os.path.dirname(os.path.dirname(os.path.abspath(__file__))))
sys.setrecursionlimit(100000)
from harness import engine, build
import importlib
prop = importlib.import_module('harness.props.' + sys.argv[1])
tier = sys.argv[3] if len(sys.argv) > 3 else 'quick'
build.prepare(hooks=bool(getattr(prop, 'NEEDS_HOOKS', False)))
engine._init_worker(sys.argv[1], {})
for case in prop.cases(tier, 0):
    if sys.argv[2] in str(case.get('id')):
        work = [[]]
        n = 0
        while work and n < 20:
            prefix = work.pop(); n += 1
            status, info, drv = engine.run_once(engine._M, prop, case, prefix)
            work.extend(engine._M.pending)
            print(case['id'], '->', status, {k: (v if k != 'tb' else v[-600:]) for k, v in info.items()})
