#!/bin/bash
# Builds everything the checks need from files on disk only (offline): the MIR dump of /repo and vreplay.
set -e
cd "$(dirname "$0")"
export CARGO_NET_OFFLINE=true
python3-vt -c "
import sys; sys.path.insert(0, '.')
from harness import build
print(build.prepare(hooks=False))
import compileall; compileall.compile_dir('mirsym', quiet=1); compileall.compile_dir('harness', quiet=1)
"
