"""C05 - an exhausted query stays exhausted."""
from ..engine import Violation
from ..driver import ScenarioEnd
from .. import progs as P
from .. import refsld as S
from ..progs import V, A, C, L, I, gc, gb, AND, OR, NOT, U, F, X, Y, Z
from . import prog_common as PC
from . import c01, c02, c03, c04

ANCHORS = PC.ANCHORS
WITNESSES = {'all': ['re-asked', 'exhausted-through-not', 'exhausted-and-with-tail', 'exhausted-with-cut', 'solve-after-no-more', 'stop-flag-raised-and-lowered']}
OPTS = {'quick': {'selfcheck_mod': 100, 'budget_s': 280}, 'thorough': {'selfcheck_mod': 1500, 'budget_s': 3000}}
STEP_LIMIT = 1_500_000
BOUNDS = {
    'quick': 'every 3rd program of the C01, C02, C03 and C04 families (conjunctions, disjunctions, cut, not, output goals): the search is run to its first "no more answers" (at most 8 '
             'answers), then next_solution is called three more times on the same query; every call must report none and write nothing; 21 programs with time(G) (whose elapsed-time output is the only thing checked: none after exhaustion); a sample is also driven through solve(): '
             'after "No more." two further calls must return "No more."; for a fifth of the programs also: the stop flag is raised with stop_query() after 0-2 requests, '
             'requests go on until one reports none, solve() (which lowers the flag) must say "No more." and two more requests must report none',
    'thorough': 'every program of those families',
}
OUTSIDE = 'queries with more than 8 answers (never exhausted within the bound)'
ASSUMPTIONS = []


def cases(tier, seed):
    out = []
    step = 3 if tier == 'quick' else 1
    for mod, fam in ((c01, 'c01'), (c02, 'c02'), (c03, 'c03'), (c04, 'c04')):
        cs = [c for c in mod.cases(tier, seed) if 'clauses' in c and c.get('fam') != 'text']
        import hashlib
        for i, c in enumerate(cs):
            # a seeded, structure-independent third of each family (every program in the thorough tier)
            h = int(hashlib.sha1(('%s|%s|%d' % (fam, c['id'].split('|')[0], seed)).encode()).hexdigest()[:8], 16)
            if h % step == 0:
                c = dict(c); c['src'] = fam; c['solve'] = (h // step) % 7 == 0; out.append(c)
                if (h // step) % 5 == 1:
                    # the stop flag goes up (stop_query(), what an expired timer does) after k answers and is lowered again by solve()
                    d = dict(c); d['solve'] = False; d['stopflag'] = (h // 11) % 3; d['id'] = 'stop flag raised after %d requests: %s' % (d['stopflag'], c['id']); out.append(d)
    # time(G) writes the elapsed time when G has been run: it must stay quiet after exhaustion like everything else
    tm = lambda g: ('gtime', (g,))
    for body in (tm(gc('p', X)), tm(gb('fail')), AND(gc('p', X), tm(gc('q', X))), AND(tm(gc('nosuch', X)), gc('p', X)), OR(tm(gb('fail')), gc('q', X)),
                 AND(gc('q', X), tm(gb('equal', X, A('zz')))), OR(gc('p', X), AND(tm(gc('nosuch', X)), gc('q', X)))):
        for q in (C('t', X), C('t', A('b')), C('t', A('zz'))):
            cl = [(C('t', X), body)]
            out.append({'id': 'time: %s ?- %s|%d' % (P.gtext(body), P.ttext(q), len(out)), 'fam': 'time', 'src': 'time', 'solve': False,
                        'clauses': PC.jsonable(tuple(cl)), 'query': PC.jsonable(q)})
    return out


def run_time(drv, case):
    """no reference needed: run to the first None (at most 8 answers), then three more requests must give nothing and write nothing"""
    m = drv.m
    cs = {'clauses': PC.untuple(case['clauses']), 'query': PC.untuple(case['query']), 'concrete_data': case.get('concrete_data')}
    clauses, query = PC.program(m, cs)
    kb = P.build_kb(drv, clauses)
    try:
        run = P.impl_search(drv, kb, query, 8, reask=3)
    except ScenarioEnd as e:
        raise Violation('search-%s' % e.why[0], '%s: %s' % (case['id'], e.why[1][:200]))
    if not run.exhausted: return {'tags': ['not-exhausted-within-bound'], 'nontrivial': False}
    for i, (ans, out) in enumerate(run.after):
        if ans or out:
            raise Violation('answers-after-exhaustion:time', '%s: request %d after the search reported no more answers %s%s' % (
                case['id'], i + 1, 'gives an answer' if ans else 'gives none', (' and writes %r' % out) if out else ''))
    return {'tags': ['re-asked', 'time-goal'], 'note': case['id']}


def run_stopflag(drv, case):
    """requests while the stop flag is up may end the search early; but once a request has reported none, none is final - also after
    the flag has been lowered again"""
    m = drv.m
    cs = {'clauses': PC.untuple(case['clauses']), 'query': PC.untuple(case['query']), 'concrete_data': case.get('concrete_data')}
    clauses, query = PC.program(m, cs)
    desc = case['id'].split('|')[0]
    try:
        ref = P.ref_search(m, clauses, query, 8)
    except S.Outside:
        return {'tags': ['outside-claim'], 'nontrivial': False}
    if not ref[2]: return {'tags': ['not-exhausted-within-bound'], 'nontrivial': False}
    kb = P.build_kb(drv, clauses)
    try:
        q = drv.query([drv.term(t) for t in query[1]])
        node = drv.base(q, kb)
        ended = False
        for i in range(case['stopflag']):
            if drv.next(node).h is None: ended = True; break
        drv.stop()
        if not ended:
            for i in range(10):
                if drv.next(node).h is None: ended = True; break
        if not ended: return {'tags': ['not-exhausted-within-bound'], 'nontrivial': False}
        s = drv.solve(node)          # lowers the flag (start_query_timer) and asks again
        if s != 'No more.' or drv.outs[-1]:
            raise Violation('answers-after-exhaustion:stop-flag', '%s: after a request reported none, solve() returns %r and writes %r' % (desc, s, drv.outs[-1]))
        for k in range(2):
            r = drv.next(node)
            if r.h is not None or drv.outs[-1]:
                raise Violation('answers-after-exhaustion:stop-flag', '%s: after a request reported none and the stop flag was lowered, request %d %s%s' % (
                    desc, k + 1, 'gives an answer' if r.h is not None else 'gives none', (' and writes %r' % drv.outs[-1]) if drv.outs[-1] else ''))
    except ScenarioEnd as e:
        raise Violation('search-%s' % e.why[0], '%s: %s' % (desc, e.why[1][:200]))
    return {'tags': ['stop-flag-raised-and-lowered'], 'note': desc}


def run(drv, case):
    if case.get('fam') == 'time': return run_time(drv, case)
    if case.get('stopflag') is not None: return run_stopflag(drv, case)
    m = drv.m
    cs = {'clauses': PC.untuple(case['clauses']), 'query': PC.untuple(case['query']), 'concrete_data': case.get('concrete_data')}
    clauses, query = PC.program(m, cs)
    desc = '%s  ?- %s' % (' '.join(P.ctext(c) for c in cs['clauses']), P.ttext(cs['query']))
    try:
        ref = P.ref_search(m, clauses, query, 8)      # only to drop programs outside the claim (panicking arithmetic, ...)
    except S.Outside:
        return {'tags': ['outside-claim'], 'nontrivial': False}
    if not ref[2]:
        # more than 8 answers: the reference has not seen the whole search, so it cannot vouch that the rest stays inside the claim
        return {'tags': ['not-exhausted-within-bound'], 'nontrivial': False}
    kb = P.build_kb(drv, clauses)
    tags = []
    try:
        if case.get('solve'):
            q = drv.query([drv.term(t) for t in query[1]])
            node = drv.base(q, kb)
            n = 0
            while True:
                s = drv.solve(node); n += 1
                if s == 'No more.' or n > 9: break
            if s == 'No more.':
                for k in range(2):
                    s2 = drv.solve(node)
                    if s2 != 'No more.' or drv.outs[-1]:
                        raise Violation('solve-after-no-more', '%s: after "No more.", solve() returns %r and writes %r' % (desc, s2, drv.outs[-1]))
                tags.append('solve-after-no-more')
            return {'tags': tags, 'note': desc}
        run = P.impl_search(drv, kb, query, 8, reask=3)
    except ScenarioEnd as e:
        raise Violation('search-%s' % e.why[0], '%s: %s' % (desc, e.why[1][:200]))
    if not run.exhausted: return {'tags': ['not-exhausted-within-bound'], 'nontrivial': False}
    for i, (ans, out) in enumerate(run.after):
        if ans or out:
            raise Violation('answers-after-exhaustion:' + case['src'], '%s: request %d after the search reported no more answers %s%s' % (
                desc, i + 1, 'gives an answer' if ans else 'gives none', (' and writes %r' % out) if out else ''))
    tags.append('re-asked')
    text = desc
    if 'not(' in text: tags.append('exhausted-through-not')
    if '!' in text: tags.append('exhausted-with-cut')
    if ', ' in text.split(':-')[-1]: tags.append('exhausted-and-with-tail')
    return {'tags': tags, 'note': desc}
