"""C18 - parsers return a value or an error for every input, never panic."""
import re
import z3
from mirsym.machine import Sym
from ..engine import Violation
from ..driver import ScenarioEnd

ANCHORS = ['parse_term', 'parse_arguments', 'parse_linked_list', 'parse_complex', 'parse_function', 'parse_query', 'parse_subgoal',
           'generate_goal', 'parse_rule', 'make_logic_var', 'check_infix', 'tokenize', 'token_tree_to_goal']
WITNESSES = {'all': ['ok', 'err', 'symbolic', 'mutated', 'truncated', 'template']}
OPTS = {'quick': {'selfcheck_mod': 60, 'budget_s': 280, 'max_paths_per_case': 60000},
        'thorough': {'selfcheck_mod': 2000, 'budget_s': 3000, 'max_paths_per_case': 400000}}
STEP_LIMIT = 400_000
NATIVE_TIMEOUT = 5.0
ALPHABET = 'a1$_()[],| .-+"\\=;:<>*/!#\u00e9'
BOUNDS = {
    'quick': 'every string of length 0-3 over the 27-symbol alphabet ' + repr(ALPHABET) + ' (each character a solver variable) through each of 13 entry points '
             '(parse_term, parse_arguments, parse_linked_list, parse_complex, parse_function, parse_query, parse_subgoal, generate_goal, parse_rule, make_logic_var, '
             'check_quotes, check_infix, check_arithmetic_infix); plus every text of a 75-item corpus of valid source and of 50-60 character texts with balanced and unbalanced quotes with one position replaced by a symbolic '
             'alphabet character, and truncated at every position; 8 templates (`[`..`]`, `f(`..`)`, `p(a) :- `...`.`, bare arguments / subgoals / terms / queries / goals) whose interior of up to 4-6 characters is symbolic over the 7-10 structural characters of that syntax; 400k-statement step limit per call (a loop shows as a hang)',
    'thorough': 'strings up to length 4 (5 for the leaf parsers), two replaced positions in the corpus texts, template interiors one character longer',
}
OUTSIDE = 'strings longer than the bound; characters outside the alphabet (other than those in the corpus)'
ASSUMPTIONS = ['a Rust panic (explicit panic!, unwrap on None, index or slice out of range, arithmetic overflow in the dev profile) and a call exceeding the step limit are the violations']

ENTRY = ['term', 'args', 'list', 'complex', 'function', 'query', 'subgoal', 'goal', 'rule', 'logicvar', 'check_quotes', 'infix', 'arith_infix']
LEAF = ['term', 'args', 'logicvar', 'check_quotes', 'infix', 'arith_infix']

CORPUS = {
    'term': ['$X', '$_', 'abc', '12', '-3', '4.5', '"a b"', '[a, b | $T]', 'f(a, $X)', 'add(1, 2)', '$X + 1', '\\,'],
    'args': ['a, $X, 1', '[a], f(b)', '"x, y", z', 'a, \\,', '-3, +7, 2.5'],
    'list': ['[]', '[a, b, c]', '[$H | $T]', '[[a], f(b) | $_]', '["a, b", c]'],
    'complex': ['f(a, b)', 'loves(Leonard, Penny)', 'p', 'f([a | $T], g($X))'],
    'function': ['add(1, 2)', 'join(a, b)'],
    'query': ['f($X, a).', 'p($X)', 'go'],
    'subgoal': ['f($X)', '$X = 5', '$X <= $Y', 'not(p($X))', 'time(q)', '!', 'fail', 'nl', 'print(a, $X)', '$X = $Y + 1', '$X == a'],
    'goal': ['a, b', 'a; b', 'a, b; c, d', '(a; b), c', 'p($X), !, q($X)', 'not(a), $X = 1'],
    'rule': ['p(a).', 'p($X) :- q($X), r($X).', 'p($X) :- q($X); r($X).', 'f([$H | $T], $H).', 'go :- print(x), nl.'],
    'logicvar': ['$X', '$Abc'],
    'check_quotes': ['"ab"', 'a"b"'],
    'infix': ['$X = 1', '$X >= $Y', 'a'],
    'arith_infix': ['$X + 1', '1 / 2', 'a'],
}


# templates: fixed outer text, an interior of k solver-variable characters over the structural characters of that syntax (longer than the
# all-alphabet strings above can be, because the alphabet is the handful of characters the parser branches on)
TEMPLATES = [('list', '[', ']', 'a$T,| "', 6, 7), ('complex', 'f(', ')', 'a$X," ()', 5, 6), ('args', '', '', 'a$,"\\(1-', 4, 5), ('rule', 'p(a) :- ', '.', 'q($X),;!. ', 4, 5),
             ('subgoal', '', '', '$X=1<+a ', 6, 7), ('term', '', '', '[]a,|$"', 5, 6), ('query', '', '', 'p($X).,', 5, 6), ('goal', '', '', 'a,;() !', 5, 6)]


# long texts (beyond any fixed-size buffer or message limit one might think of), valid and with unbalanced quotes
LONG = ['"' + 'abcdefghij' * 5 + '"', '"' + 'abcdefghij' * 5, 'ab"' + 'cdefghijkl' * 5 + '" "', 'f(' + 'abcdefghi, ' * 4 + '"abcdefghijklmnopqrstuvwxyz)']
for _e in ('term', 'args', 'list', 'check_quotes', 'subgoal'):
    CORPUS[_e] = CORPUS[_e] + ([t if _e != 'list' else '[' + t + ']' for t in LONG[:3]] if _e != 'subgoal' else [LONG[3]])


def cases(tier, seed):
    out = []
    for e, pre, post, alpha, kq, kt in TEMPLATES:
        for k in range(1, (kq if tier == 'quick' else kt) + 1):
            for ch in alpha:
                out.append({'id': '%s: %r + %r + %d symbolic of %r + %r' % (e, pre, ch, k - 1, alpha, post), 'fam': 'tpl', 'entry': e, 'pre': pre, 'post': post, 'alpha': alpha, 'k': k, 'first': ch})
    NQ = {'term': 3, 'args': 3, 'list': 4, 'complex': 4, 'function': 4, 'query': 4, 'subgoal': 4, 'goal': 3, 'rule': 4,
          'logicvar': 4, 'check_quotes': 4, 'infix': 4, 'arith_infix': 4}
    for e in ENTRY:
        top = NQ[e] + (0 if tier == 'quick' else 1)
        out.append({'id': '%s: empty string' % e, 'fam': 'sym', 'entry': e, 'n': 0, 'first': None})
        for n in range(1, top + 1):
            for ch in ALPHABET:     # the first character is enumerated to spread the work; the others are solver variables
                out.append({'id': '%s: %r + %d symbolic chars' % (e, ch, n - 1), 'fam': 'sym', 'entry': e, 'n': n, 'first': ch})
    for e, texts in CORPUS.items():
        for t in texts:
            for pos in range(len(t)):
                out.append({'id': '%s: %r with position %d replaced' % (e, t, pos), 'fam': 'mut', 'entry': e, 'text': t, 'pos': [pos]})
                out.append({'id': '%s: %r truncated to %d' % (e, t, pos), 'fam': 'trunc', 'entry': e, 'text': t[:pos]})
            if tier != 'quick' and len(t) <= 14:      # (two positions only in the short texts)
                for p1 in range(len(t)):
                    for p2 in range(p1 + 1, len(t)):
                        out.append({'id': '%s: %r with positions %d,%d replaced' % (e, t, p1, p2), 'fam': 'mut', 'entry': e, 'text': t, 'pos': [p1, p2]})
    return out


def sym_alpha(m, name):
    c = m.fresh(name, 'char')
    if isinstance(c, Sym):
        m.assume(Sym(z3.Or([c.e == ord(x) for x in ALPHABET]), 'bool'))
    return c


def norm_msg(s):
    s = re.sub(r'\d+', 'N', s)
    s = re.sub(r'[`\'"].*', '', s)
    return s[:50].strip()


def run(drv, case):
    m = drv.m
    fam = case['fam']
    if fam == 'sym':
        chars = ([case['first']] if case['n'] else []) + [sym_alpha(m, 'c%d' % i) for i in range(1, case['n'])]
        tag = 'symbolic'
    elif fam == 'tpl':
        chars = list(case['pre']) + [case['first']]
        for i in range(1, case['k']):
            c = m.fresh('c%d' % i, 'char')
            if isinstance(c, Sym): m.assume(Sym(z3.Or([c.e == ord(x) for x in case['alpha']]), 'bool'))
            chars.append(c)
        chars += list(case['post'])
        tag = 'template'
    elif fam == 'mut':
        chars = list(case['text'])
        for p in case['pos']: chars[p] = sym_alpha(m, 'c%d' % p)
        tag = 'mutated'
    else:
        chars = list(case['text']); tag = 'truncated'
    try:
        r, res = drv.parse(case['entry'], chars)
    except ScenarioEnd as e:
        kind, msg, idx = e.why
        text = ''.join(c if isinstance(c, str) else '?' for c in chars)
        raise Violation('%s:%s:%s' % (kind, case['entry'], norm_msg(msg)), '%s(%r) %s: %s' % (case['entry'], text, 'panics' if kind == 'panic' else 'does not return', msg[:200]))
    return {'tags': [tag, res[0]], 'note': case['id']}
