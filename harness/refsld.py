"""Reference interpreter: depth-first, left-to-right, clause-order SLD resolution over the reference
unifier, with the built-ins as documented, `not`, an output log and the documented Suiron cut.

Independent of the implementation's solution nodes: plain recursive generators over immutable
substitution dicts.  Scalars may be symbolic; every data-dependent decision goes through m.branch.

Clauses: (head, body) with head an abstract ('cplx', ..) term and body a goal or None (fact).
Goals:   ('gc', term) ('gb', name, args|None) ('gand', goals) ('gor', goals) ('gnot', (goal,))
Variables of clauses and queries carry id 0 and a name; the interpreter renames them apart itself.
"""
import z3
from mirsym.machine import Sym
from . import refunify as R
from . import heap as H


class Outside(Exception):
    """the program leaves the claim: step budget exceeded, a built-in whose behaviour the statement does not
    define (unbound arithmetic operand, overflow, improper list, occurs check)"""
    def __init__(self, why): Exception.__init__(self, why); self.why = why


class CutFlag:
    """cuts executed so far in one call (a counter, so that a second cut in the same body is seen as a new event)"""
    __slots__ = ('n',)
    def __init__(self): self.n = 0
    @property
    def set(self): return self.n > 0


class Interp:
    def __init__(self, m, clauses, budget=4000, disj_mode='suiron'):
        self.m = m
        self.clauses = {}
        for head, body in clauses:
            key = (atom_name(head[1][0]), len(head[1]) - 1)
            self.clauses.setdefault(key, []).append((head, body))
        self.next_id = 1000
        self.steps = 0
        self.budget = budget
        self.out = []            # output log: list of strings, in execution order
        self.disj_mode = disj_mode
        self.cut_in_disjunction = False   # the permissive zone of C02 was entered
        self.cut_ran = False

    # ------------------------------------------------------------ renaming
    def rename(self, t, mp):
        k = t[0]
        if k == 'var':
            if t[2] not in mp:
                mp[t[2]] = ('var', self.next_id, t[2]); self.next_id += 1
            return mp[t[2]]
        if k == 'cplx': return ('cplx', tuple(self.rename(x, mp) for x in t[1]))
        if k == 'func': return ('func', t[1], tuple(self.rename(x, mp) for x in t[2]))
        if k == 'lst': return ('lst', tuple(self.rename(x, mp) for x in t[1]), None if t[2] is None else self.rename(t[2], mp))
        return t

    def rename_goal(self, g, mp):
        k = g[0]
        if k == 'gc': return ('gc', self.rename(g[1], mp))
        if k == 'gb': return ('gb', g[1], None if g[2] is None else tuple(self.rename(x, mp) for x in g[2]))
        return (k, tuple(self.rename_goal(x, mp) for x in g[1]))

    def tick(self):
        self.steps += 1
        if self.steps > self.budget: raise Outside('reference step budget exceeded')

    # ------------------------------------------------------------ search
    def query(self, q):
        """q: abstract cplx term as written.  yields (resolved answer term, sub)"""
        mp = {}
        q = self.rename(q, mp)
        for sub in self.call(q, {}):
            yield R.resolve(q, sub), sub

    def call(self, goal, sub):
        key = (atom_name(goal[1][0]), len(goal[1]) - 1)
        for head, body in self.clauses.get(key, []):
            self.tick()
            mp = {}
            h = self.rename(head, mp)
            try:
                s1 = R.unify(self.m, h, goal, sub)
            except R.OccursCheck:
                raise Outside('occurs check / improper list in head unification')
            if s1 is None: continue
            if body is None:
                yield s1; continue
            b = self.rename_goal(body, mp)
            cf = CutFlag()
            for s2 in self.solve(b, s1, cf):
                yield s2
                if cf.set: return          # the call yields no answer beyond the one being derived when the cut ran
            if cf.set: return              # goals after the cut failed: no later clause

    def solve(self, g, sub, cf):
        self.tick()
        k = g[0]
        if k == 'gc':
            yield from self.call(g[1], sub); return
        if k == 'gand':
            yield from self.conj(list(g[1]), sub, cf); return
        if k == 'gor':
            # A cut inside a disjunction is the zone where the statement leaves room (DESIGN C02): three readings.
            #  'suiron'  : the disjunction is not re-entered once a cut ran inside it; alternatives that were pending when the
            #              cut's own alternative failed are still tried, for one solution
            #  'noreentry': not re-entered, pending alternatives pruned
            #  'iso'     : goals after the cut may still backtrack; pending alternatives pruned
            alts = list(g[1])
            for i, alt in enumerate(alts):
                was = cf.n
                for s in self.solve(alt, sub, cf):
                    yield s
                    if cf.n != was:
                        self.cut_in_disjunction = True
                        if self.disj_mode != 'iso': return
                if cf.n != was:
                    self.cut_in_disjunction = True
                    if self.disj_mode == 'suiron':
                        for alt2 in alts[i + 1:]:
                            for s in self.solve(alt2, sub, cf):
                                yield s
                                return
                    return
            return
        if k == 'gnot':
            inner = CutFlag()
            found = False
            for _ in self.solve(g[1][0], sub, inner):
                found = True; break
            if not found: yield sub
            return
        if k == 'gb':
            yield from self.builtin(g[1], g[2], sub, cf); return
        raise ValueError('goal ' + repr(g))

    def conj(self, goals, sub, cf):
        if not goals:
            yield sub; return
        was = cf.n
        for s in self.solve(goals[0], sub, cf):
            yield from self.conj(goals[1:], s, cf)
            if cf.n != was: return      # a cut ran at or after this goal: it is not re-tried

    # ------------------------------------------------------------ built-ins
    def builtin(self, name, args, sub, cf):
        m = self.m
        if name == '!':
            cf.n += 1; self.cut_ran = True
            yield sub; return
        if name == 'fail': return
        if name == 'nl':
            self.out.append('\n'); yield sub; return
        if name == 'unify':
            a, b = self.value(args[0], sub), self.value(args[1], sub)
            try:
                s = R.unify(m, a, b, sub)
            except R.OccursCheck:
                raise Outside('occurs check / improper list in unification')
            if s is not None: yield s
            return
        if name in CMP:
            a, b = R.walk(args[0], sub), R.walk(args[1], sub)
            if compare(m, name, a, b): yield sub
            return
        if name == 'print':
            strs = [self.display(R.walk(x, sub), sub, True) for x in args]
            self.out.append(format_print(strs)); yield sub; return
        if name == 'print_list':
            # each list argument on a line of its own (elements separated by ", "); a list that follows another argument is
            # preceded by ",\n"; a non-list argument is written on a line of its own
            text, first = '', True
            for a in args:
                t = R.walk(a, sub)
                if t[0] == 'lst':
                    v = R.list_view(t, sub)
                    if v is None or v[1] is not None: raise Outside('print_list on an open or improper list')
                    if not first: text += ',\n'
                    text += ', '.join(self.display(R.walk(e, sub), sub) for e in v[0]) + '\n'
                else:
                    if t[0] == 'var': raise Outside('print_list on an unbound variable')
                    text += self.display(t, sub) + '\n'
                first = False
            self.out.append(text); yield sub; return
        if name == 'append':
            items = []
            for x in args[:-1]:
                t = R.walk(x, sub)
                if t[0] == 'var': raise Outside('append with an unbound argument')
                if t[0] == 'lst':
                    v = R.list_view(t, sub)
                    if v is None or v[1] is not None: raise Outside('append on an open or improper list')
                    items += v[0]
                else: items.append(t)
            s = self.u(args[-1], ('lst', tuple(items), None), sub)
            if s is not None: yield s
            return
        if name == 'count':
            t = R.walk(args[0], sub)
            v = R.list_view(t, sub) if t[0] == 'lst' else None
            if v is None or v[1] is not None: raise Outside('count on a non-list or open list')
            s = self.u(args[1], ('int', len(v[0])), sub)
            if s is not None: yield s
            return
        if name in ('include', 'exclude'):
            t = R.walk(args[1], sub)
            v = R.list_view(t, sub) if t[0] == 'lst' else None
            if v is None or v[1] is not None: raise Outside(name + ' on a non-list or open list')
            keep = []
            for e in v[0]:
                try: ok = R.unify(m, args[0], e, sub) is not None
                except R.OccursCheck: raise Outside('occurs check in filter')
                if ok == (name == 'include'): keep.append(e)
            s = self.u(args[2], ('lst', tuple(keep), None), sub)
            if s is not None: yield s
            return
        if name == 'functor':
            c = R.walk(args[0], sub)
            if c[0] != 'cplx': return
            f = R.walk(args[1], sub)
            if f[0] == 'atom':
                if not functor_match(m, c[1][0], f): return
                s = sub
            elif f[0] == 'var':
                s = self.u(f, c[1][0], sub)
                if s is None: return
            else: return
            if len(args) == 3:
                s = self.u(args[2], ('int', len(c[1]) - 1), s)
                if s is None: return
            yield s; return
        raise Outside('built-in ' + name)

    def u(self, a, b, sub):
        try: return R.unify(self.m, a, b, sub)
        except R.OccursCheck: raise Outside('occurs check')

    def value(self, t, sub):
        """a function term is evaluated before it is unified"""
        t = R.walk(t, sub)
        if t[0] != 'func': return t
        name = t[1]
        if name == 'join':
            words = []
            for x in t[2]:
                w = R.walk(x, sub)
                if w[0] == 'lst':
                    v = R.list_view(w, sub)
                    if v is None or v[1] is not None: raise Outside('join on an open list')
                    words += [R.walk(e, sub) for e in v[0]]
                else: words.append(w)
            text = ''
            for i, w in enumerate(words):
                sw = self.display(w, sub)
                if sw in (',', '.', '?', '!') or i == 0: text += sw
                else: text += ' ' + sw
            return ('atom', text)
        if name in ('add', 'subtract', 'multiply', 'divide'):
            vals = []
            for x in t[2]:
                w = R.walk(self.value(x, sub), sub)
                if w[0] not in ('int', 'float'): raise Outside('arithmetic on a non-number or unbound operand')
                vals.append(w)
            return arith(self.m, name, vals)
        raise Outside('function ' + str(name))

    def display(self, t, sub, vars_ok=False):
        """Rust Display of a term (concrete leaves only)"""
        return display(R.resolve(t, sub) if t[0] in ('lst', 'cplx') else t, vars_ok)


CMP = {'equal': 'Eq', 'less_than': 'Lt', 'less_than_or_equal': 'Le', 'greater_than': 'Gt', 'greater_than_or_equal': 'Ge'}


def atom_name(a):
    if a[0] != 'atom' or not isinstance(a[1], str): raise Outside('functor is not a concrete atom')
    return a[1]


def to_f(x):
    if isinstance(x, Sym): return Sym(z3.fpSignedToFP(z3.RNE(), x.e, z3.Float64()), 'f64')
    return float(x)


def compare(m, name, a, b):
    op = CMP[name]
    ka, kb = a[0], b[0]
    if ka == 'int' and kb == 'int': return m.branch(m.binop(op, a[1], b[1]))
    if ka in ('int', 'float') and kb in ('int', 'float'):
        x = a[1] if ka == 'float' else to_f(a[1])
        y = b[1] if kb == 'float' else to_f(b[1])
        return m.branch(m.binop(op, x, y))
    if ka == 'atom' and kb == 'atom':
        x, y = list(a[1]), list(b[1])
        c = 0
        for p, q in zip(x, y):
            if m.branch(m.binop('Lt', p, q)): c = -1; break
            if m.branch(m.binop('Gt', p, q)): c = 1; break
        if c == 0: c = (len(x) > len(y)) - (len(x) < len(y))
        return {'Eq': c == 0, 'Lt': c < 0, 'Le': c <= 0, 'Gt': c > 0, 'Ge': c >= 0}[op]
    return False


def arith(m, name, vals):
    """left-to-right fold; all integers -> i64 (overflow / division by zero: outside), any float -> f64"""
    anyf = any(v[0] == 'float' for v in vals)
    if anyf:
        xs = [v[1] if v[0] == 'float' else to_f(v[1]) for v in vals]
        acc = xs[0]
        for x in xs[1:]:
            acc = m.binop({'add': 'Add', 'subtract': 'Sub', 'multiply': 'Mul', 'divide': 'Div'}[name], acc, x)
        return ('float', acc)
    acc = vals[0][1]
    for v in vals[1:]:
        x = v[1]
        if name == 'divide':
            if m.branch(m.binop('Eq', x, 0)): raise Outside('integer division by zero')
            if isinstance(acc, Sym) or isinstance(x, Sym):
                if m.branch(Sym(z3.And(to_bv(acc) == -(1 << 63), to_bv(x) == -1), 'bool')): raise Outside('integer overflow')
                acc = Sym(to_bv(acc) / to_bv(x), 'i64')
            else:
                q = abs(acc) // abs(x); acc = q if (acc < 0) == (x < 0) else -q
                if not -(1 << 63) <= acc < (1 << 63): raise Outside('integer overflow')
            continue
        opn = {'add': 'AddWithOverflow', 'subtract': 'SubWithOverflow', 'multiply': 'MulWithOverflow'}[name]
        if isinstance(acc, Sym) or isinstance(x, Sym):
            r = m.binop(opn, acc if isinstance(acc, Sym) else Sym(z3.BitVecVal(acc, 64), 'i64'), x if isinstance(x, Sym) else Sym(z3.BitVecVal(x, 64), 'i64'))
            if m.branch(r.fields[1].v): raise Outside('integer overflow')
            acc = r.fields[0].v
        else:
            acc = {'add': acc + x, 'subtract': acc - x, 'multiply': acc * x}[name]
            if not -(1 << 63) <= acc < (1 << 63): raise Outside('integer overflow')
    return ('int', acc)


def to_bv(x):
    return x.e if isinstance(x, Sym) else z3.BitVecVal(x, 64)


def functor_match(m, functor, pat):
    f, p = functor, pat
    if f[0] != 'atom': return False
    ps = list(p[1])
    if ps and ps[-1] == '*':
        pre = ps[:-1]; fs = list(f[1])
        return len(fs) >= len(pre) and R.name_eq(m, fs[:len(pre)], pre)
    return R.name_eq(m, f[1], p[1])


def format_print(strs):
    """print's documented rule: later arguments replace the %s markers of the first one left to right; surplus
    arguments are appended; surplus markers disappear (their surrounding text stays)"""
    if not strs: raise Outside('print without arguments')
    parts = strs[0].split('%s')
    out = parts[0]
    rest = strs[1:]
    i = 0
    for p in parts[1:]:
        if i < len(rest): out += rest[i]; i += 1
        out += p
    while i < len(rest):
        out += rest[i]; i += 1
    return out


def display(t, vars_ok=False):
    k = t[0]
    if k == 'atom':
        if not isinstance(t[1], str): raise Outside('printing a symbolic atom')
        return t[1]
    if k == 'int':
        if isinstance(t[1], Sym): raise Outside('printing a symbolic number')
        return str(t[1])
    if k == 'float':
        if isinstance(t[1], Sym): raise Outside('printing a symbolic number')
        return H.rust_f64(t[1])
    if k == 'anon': return '$_'
    if k == 'var':
        if not vars_ok: raise Outside('the text of an unbound variable depends on its id')
        # what is written for an unbound variable is outside C04's claim: a placeholder that progs.out_matches accepts any text for
        return '$?'
    if k == 'cplx': return display(t[1][0], vars_ok) + '(' + ', '.join(display(x, vars_ok) for x in t[1][1:]) + ')'
    if k == 'lst':
        s = ', '.join(display(x, vars_ok) for x in t[1])
        if t[2] is not None: s += ' | ' + display(t[2], vars_ok)
        return '[' + s + ']'
    raise Outside('printing ' + k)
