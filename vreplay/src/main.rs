//! vreplay: runs a concrete scenario (a list of operations, JSON) against the natively compiled
//! suiron crate built from /repo's current working tree, and prints one observation per operation.
//!
//! The same operation language is interpreted by harness/driver.py on top of the MIR symbolic
//! executor; observations of both must be equal (differential self-check), and a violation found
//! symbolically is reported only if it shows up in the observations printed here.
//!
//! Output protocol (stdout): program output of the crate is passed through; after each operation a line
//!   \n@@OBS <index> <json string>\n
//! is written.  The driver splits on these markers: the text between two markers is what the crate
//! itself printed during that operation.

mod json;
use json::{J, quote};

use std::rc::Rc;
use std::cell::RefCell;
use std::io::Write;
use std::panic::{catch_unwind, AssertUnwindSafe};

use suiron::*;

#[derive(Clone)]
enum V {
    None,
    Term(Unifiable),
    SS(Rc<SubstitutionSet<'static>>),
    Goal(Goal),
    Rule(Rule),
    KB(&'static KnowledgeBase),
    Node(Rc<RefCell<SolutionNode<'static>>>),
    Terms(Vec<Unifiable>),
}

fn dump(t: &Unifiable) -> String {
    match t {
        Unifiable::Nil => "N".to_string(),
        Unifiable::Anonymous => "_".to_string(),
        Unifiable::Atom(s) => format!("A{}", quote(s)),
        Unifiable::SFloat(f) => if f.is_nan() { "Fnan".to_string() } else { format!("F{:016x}", f.to_bits()) },
        Unifiable::SInteger(i) => format!("I{}", i),
        Unifiable::LogicVar{id, name} => format!("V{}{}", id, quote(name)),
        Unifiable::SComplex(ts) => format!("C({})", ts.iter().map(dump).collect::<Vec<_>>().join(",")),
        Unifiable::SLinkedList{term, next, count, tail_var} =>
            format!("L({},{},{},{})", dump(term), dump(next), count, if *tail_var {"t"} else {"f"}),
        Unifiable::SFunction{name, terms} =>
            format!("X{}({})", quote(name), terms.iter().map(dump).collect::<Vec<_>>().join(",")),
    }
}

fn dump_goals(gs: &Vec<Goal>) -> String { gs.iter().map(dump_goal).collect::<Vec<_>>().join(",") }

fn dump_goal(g: &Goal) -> String {
    match g {
        Goal::Nil => "gN".to_string(),
        Goal::ComplexGoal(t) => format!("gC({})", dump(t)),
        Goal::BuiltInGoal(b) => match &b.terms {
            Some(ts) => format!("gB{}({})", quote(&b.functor), ts.iter().map(dump).collect::<Vec<_>>().join(",")),
            None => format!("gB{}-", quote(&b.functor)),
        },
        Goal::OperatorGoal(op) => match op {
            Operator::And(gs) => format!("gAnd[{}]", dump_goals(gs)),
            Operator::Or(gs) => format!("gOr[{}]", dump_goals(gs)),
            Operator::Time(gs) => format!("gTime[{}]", dump_goals(gs)),
            Operator::Not(gs) => format!("gNot[{}]", dump_goals(gs)),
        },
    }
}

fn dump_rule(r: &Rule) -> String { format!("R({}:-{})", dump(&r.head), dump_goal(&r.body)) }

fn dump_ss(ss: &SubstitutionSet) -> String {
    let v: Vec<String> = ss.iter().map(|e| match e { None => "-".to_string(), Some(t) => dump(t) }).collect();
    format!("[{}]", v.join(","))
}

fn build_term(j: &J) -> Unifiable {
    let t = j.get("t").str();
    match t {
        "nil" => Unifiable::Nil,
        "anon" => Unifiable::Anonymous,
        "atom" => Unifiable::Atom(j.get("s").str().to_string()),
        "int" => Unifiable::SInteger(j.get("v").i64()),
        "float" => Unifiable::SFloat(f64::from_bits(u64::from_str_radix(j.get("bits").str(), 16).unwrap())),
        "var" => Unifiable::LogicVar{ id: j.get("id").usize(), name: j.get("name").str().to_string() },
        "cplx" => Unifiable::SComplex(j.get("args").arr().iter().map(build_term).collect()),
        "node" => Unifiable::SLinkedList{ term: Box::new(build_term(j.get("term"))), next: Box::new(build_term(j.get("next"))),
                                          count: j.get("count").usize(), tail_var: j.get("tv").bool() },
        "mklist" => make_linked_list(j.get("vbar").bool(), j.get("items").arr().iter().map(build_term).collect()),
        "func" => Unifiable::SFunction{ name: j.get("name").str().to_string(),
                                        terms: j.get("args").arr().iter().map(build_term).collect() },
        _ => panic!("vreplay: unknown term spec {}", t),
    }
}

fn build_goal(j: &J) -> Goal {
    let t = j.get("g").str();
    match t {
        "nil" => Goal::Nil,
        "c" => Goal::ComplexGoal(build_term(j.get("term"))),
        "b" => {
            let terms = if j.get("args").is_null() { None } else { Some(j.get("args").arr().iter().map(build_term).collect()) };
            Goal::BuiltInGoal(BuiltInPredicate::new(j.get("name").str().to_string(), terms))
        },
        "and" => Goal::OperatorGoal(Operator::And(j.get("goals").arr().iter().map(build_goal).collect())),
        "or" => Goal::OperatorGoal(Operator::Or(j.get("goals").arr().iter().map(build_goal).collect())),
        "not" => Goal::OperatorGoal(Operator::Not(j.get("goals").arr().iter().map(build_goal).collect())),
        "time" => Goal::OperatorGoal(Operator::Time(j.get("goals").arr().iter().map(build_goal).collect())),
        _ => panic!("vreplay: unknown goal spec {}", t),
    }
}

struct St { regs: Vec<V>, tmp_counter: usize }

impl St {
    fn set(&mut self, r: usize, v: V) { while self.regs.len() <= r { self.regs.push(V::None); } self.regs[r] = v; }
    fn term(&self, r: usize) -> Unifiable { if let V::Term(t) = &self.regs[r] { t.clone() } else { panic!("vreplay: reg {} is not a term", r) } }
    fn term_ref(&self, r: usize) -> &'static Unifiable { Box::leak(Box::new(self.term(r))) }
    fn ss(&self, r: usize) -> Option<Rc<SubstitutionSet<'static>>> {
        match &self.regs[r] { V::SS(s) => Some(Rc::clone(s)), V::None => None, _ => panic!("vreplay: reg {} is not a substitution set", r) } }
    fn goal(&self, r: usize) -> Goal { if let V::Goal(g) = &self.regs[r] { g.clone() } else { panic!("vreplay: reg {} is not a goal", r) } }
    fn rule(&self, r: usize) -> Rule { if let V::Rule(g) = &self.regs[r] { g.clone() } else { panic!("vreplay: reg {} is not a rule", r) } }
    fn kb(&self, r: usize) -> &'static KnowledgeBase { if let V::KB(k) = &self.regs[r] { k } else { panic!("vreplay: reg {} is not a kb", r) } }
    fn node(&self, r: usize) -> Rc<RefCell<SolutionNode<'static>>> {
        if let V::Node(n) = &self.regs[r] { Rc::clone(n) } else { panic!("vreplay: reg {} is not a node", r) } }
}

fn leak_ss(s: Rc<SubstitutionSet<'static>>) -> &'static Rc<SubstitutionSet<'static>> { Box::leak(Box::new(s)) }

fn res_term(r: Result<Unifiable, String>) -> (V, String) {
    match r { Ok(t) => { let d = dump(&t); (V::Term(t), format!("Ok:{}", d)) }, Err(e) => (V::None, format!("Err:{}", e)) }
}

fn run_op(st: &mut St, op: &Vec<J>) -> String {
    let name = op[0].str();
    match name {
        "term" => { let t = build_term(&op[2]); let d = dump(&t); st.set(op[1].usize(), V::Term(t)); d },
        "ss0" => { st.set(op[1].usize(), V::SS(Rc::new(SubstitutionSet::new()))); "ok".to_string() },
        "unify" => {
            let (r, a, b, s) = (op[1].usize(), op[2].usize(), op[3].usize(), op[4].usize());
            match st.ss(s) {
                None => { st.set(r, V::None); "skip".to_string() },
                Some(ss) => {
                    let (ta, tb, ssr) = (st.term_ref(a), st.term_ref(b), leak_ss(ss));
                    match ta.unify(tb, ssr) {
                        Some(n) => { st.set(r, V::SS(n)); "S".to_string() },
                        None => { st.set(r, V::None); "N".to_string() },
                    }
                }
            }
        },
        "dumpss" => match st.ss(op[1].usize()) { None => "skip".to_string(), Some(ss) => dump_ss(&ss) },
        "fmtss" => match st.ss(op[1].usize()) { None => "skip".to_string(), Some(ss) => format_ss(&ss) },
        "sameptr" => match (st.ss(op[1].usize()), st.ss(op[2].usize())) {
            (Some(a), Some(b)) => (if Rc::ptr_eq(&a, &b) {"same"} else {"diff"}).to_string(), _ => "skip".to_string() },
        "resolve" => match st.ss(op[2].usize()) { None => "skip".to_string(),
            Some(ss) => dump(&st.term(op[1].usize()).replace_variables(&ss)) },
        "show" => match &st.regs[op[1].usize()] {
            V::Term(t) => format!("{}", t), V::Goal(g) => format!("{}", g), V::Rule(r) => format!("{}", r),
            V::None => "skip".to_string(), _ => panic!("vreplay: show on unsupported register") },
        "dump" => match &st.regs[op[1].usize()] {
            V::Term(t) => dump(t), V::Goal(g) => dump_goal(g), V::Rule(r) => dump_rule(r),
            V::Terms(ts) => format!("[{}]", ts.iter().map(dump).collect::<Vec<_>>().join(",")),
            V::None => "skip".to_string(), _ => panic!("vreplay: dump on unsupported register") },
        "ground" => match st.ss(op[2].usize()) { None => "skip".to_string(),
            Some(ss) => match get_ground_term(&st.term(op[1].usize()), &ss) { Some(t) => dump(t), None => "None".to_string() } },
        "isground" => match st.ss(op[2].usize()) { None => "skip".to_string(),
            Some(ss) => format!("{}", is_ground_variable(&st.term(op[1].usize()), &ss)) },
        "isbound" => match st.ss(op[2].usize()) { None => "skip".to_string(),
            Some(ss) => format!("{}", is_bound(&st.term(op[1].usize()), &ss)) },
        "setid" => { set_var_id(op[1].usize()); "ok".to_string() },
        "getid" => format!("{}", get_var_id()),
        "recreate" => {
            let r = op[1].usize();
            match &st.regs[op[2].usize()].clone() {
                V::Term(t) => { let n = t.clone().recreate_variables(&mut VarMap::new()); let d = dump(&n); st.set(r, V::Term(n)); d },
                V::Goal(g) => { let n = g.clone().recreate_variables(&mut VarMap::new()); let d = dump_goal(&n); st.set(r, V::Goal(n)); d },
                V::Rule(g) => { let n = g.clone().recreate_variables(&mut VarMap::new()); let d = dump_rule(&n); st.set(r, V::Rule(n)); d },
                _ => panic!("vreplay: recreate on unsupported register"),
            }
        },
        "mklist" => {
            let items: Vec<Unifiable> = op[3].arr().iter().map(|r| st.term(r.usize())).collect();
            let l = make_linked_list(op[2].bool(), items); let d = dump(&l); st.set(op[1].usize(), V::Term(l)); d
        },
        "parse" => {
            let (r, kind, s) = (op[1].usize(), op[2].str(), op[3].str());
            let (v, obs) = match kind {
                "term" => res_term(parse_term(s)),
                "list" => res_term(parse_linked_list(s)),
                "complex" => res_term(parse_complex(s)),
                "function" => res_term(parse_function(s)),
                "logicvar" => res_term(make_logic_var(s.to_string())),
                "args" => match parse_arguments(s) {
                    Ok(ts) => { let d = format!("Ok:[{}]", ts.iter().map(dump).collect::<Vec<_>>().join(",")); (V::Terms(ts), d) },
                    Err(e) => (V::None, format!("Err:{}", e)) },
                "query" => match parse_query(s) { Ok(g) => { let d = dump_goal(&g); (V::Goal(g), format!("Ok:{}", d)) }, Err(e) => (V::None, format!("Err:{}", e)) },
                "subgoal" => match parse_subgoal(s) { Ok(g) => { let d = dump_goal(&g); (V::Goal(g), format!("Ok:{}", d)) }, Err(e) => (V::None, format!("Err:{}", e)) },
                "goal" => match generate_goal(s) { Ok(g) => { let d = dump_goal(&g); (V::Goal(g), format!("Ok:{}", d)) }, Err(e) => (V::None, format!("Err:{}", e)) },
                "rule" => match parse_rule(s) { Ok(g) => { let d = dump_rule(&g); (V::Rule(g), format!("Ok:{}", d)) }, Err(e) => (V::None, format!("Err:{}", e)) },
                "check_quotes" => { let n = s.matches('"').count();
                    (V::None, match check_quotes(s, n) { Some(e) => format!("Err:{}", e), None => "Ok:".to_string() }) },
                "infix" => { let c: Vec<char> = s.chars().collect(); let (i, k) = check_infix(&c); (V::None, format!("Ok:{:?},{}", i, k)) },
                "arith_infix" => { let c: Vec<char> = s.chars().collect(); let (i, k) = check_arithmetic_infix(&c); (V::None, format!("Ok:{:?},{}", i, k)) },
                _ => panic!("vreplay: unknown parser {}", kind),
            };
            st.set(r, v); obs
        },
        "goal" => { let g = build_goal(&op[2]); let d = dump_goal(&g); st.set(op[1].usize(), V::Goal(g)); d },
        "rule" => {
            let head = st.term(op[2].usize());
            let body = if op[3].is_null() { Goal::Nil } else { st.goal(op[3].usize()) };
            let r = if op[3].is_null() { make_fact(head) } else { make_rule(head, body) };
            let d = dump_rule(&r); st.set(op[1].usize(), V::Rule(r)); d
        },
        "head" => { let t = st.rule(op[2].usize()).head.clone(); let d = dump(&t); st.set(op[1].usize(), V::Term(t)); d },
        "body" => { let g = st.rule(op[2].usize()).body.clone(); let d = dump_goal(&g); st.set(op[1].usize(), V::Goal(g)); d },
        "gterm" => { if let Goal::ComplexGoal(t) = st.goal(op[2].usize()) { let d = dump(&t); st.set(op[1].usize(), V::Term(t)); d }
                     else { panic!("vreplay: gterm on a non-complex goal") } },
        "arg" => { if let Unifiable::SComplex(ts) = st.term(op[2].usize()) { let t = ts[op[3].usize()].clone(); let d = dump(&t); st.set(op[1].usize(), V::Term(t)); d }
                   else { panic!("vreplay: arg on a non-complex term") } },
        "kb" => {
            let mut kb = KnowledgeBase::new();
            let rules: Vec<Rule> = op[2].arr().iter().map(|r| st.rule(r.usize())).collect();
            add_rules(&mut kb, rules);
            st.set(op[1].usize(), V::KB(Box::leak(Box::new(kb)))); "ok".to_string()
        },
        "dumpkb" => {
            let kb = st.kb(op[1].usize());
            let mut keys: Vec<&String> = kb.keys().collect(); keys.sort();
            keys.iter().map(|k| format!("{}=[{}]", k, kb.get(*k).unwrap().iter().map(dump_rule).collect::<Vec<_>>().join(","))).collect::<Vec<_>>().join(";")
        },
        "showkb" => format_kb(st.kb(op[1].usize())),
        "getrule" => {
            let r = get_rule(st.kb(op[2].usize()), op[3].str(), op[4].usize());
            let d = dump_rule(&r); st.set(op[1].usize(), V::Rule(r)); d
        },
        "loadkb" => {
            st.tmp_counter += 1;
            let path = std::env::temp_dir().join(format!("vreplay_{}_{}.txt", std::process::id(), st.tmp_counter));
            std::fs::write(&path, op[2].str()).unwrap();
            let mut kb = if op.len() > 3 { st.kb(op[3].usize()).clone() } else { KnowledgeBase::new() };
            let r = load_kb_from_file(&mut kb, path.to_str().unwrap());
            let _ = std::fs::remove_file(&path);
            st.set(op[1].usize(), V::KB(Box::leak(Box::new(kb))));
            match r { None => "Ok".to_string(), Some(e) => format!("Err:{}", e.replace(path.to_str().unwrap(), "<file>")) }
        },
        "query" => {
            let items: Vec<Unifiable> = op[2].arr().iter().map(|r| st.term(r.usize())).collect();
            let g = make_query(items); let d = dump_goal(&g); st.set(op[1].usize(), V::Goal(g)); d
        },
        "base" => {
            let n = make_base_node(Rc::new(st.goal(op[2].usize())), st.kb(op[3].usize()));
            st.set(op[1].usize(), V::Node(n)); "ok".to_string()
        },
        "node" => {
            // a solution node for an arbitrary goal under a given substitution set; the parent is a
            // throw-away base node for the query `vparent` (what a clause body's parent would be)
            let kb = st.kb(op[3].usize());
            match st.ss(op[4].usize()) { None => { st.set(op[1].usize(), V::None); "skip".to_string() },
                Some(ss) => {
                    let parent = make_base_node(Rc::new(Goal::ComplexGoal(Unifiable::SComplex(vec![Unifiable::Atom("vparent".to_string())]))), kb);
                    let n = make_solution_node(Rc::new(st.goal(op[2].usize())), kb, ss, parent);
                    st.set(op[1].usize(), V::Node(n)); "ok".to_string()
                } }
        },
        "next" => {
            match &st.regs[op[2].usize()] { V::None => { st.set(op[1].usize(), V::None); return "skip".to_string(); }, _ => {} }
            match next_solution(st.node(op[2].usize())) {
                Some(ss) => { st.set(op[1].usize(), V::SS(ss)); "S".to_string() },
                None => { st.set(op[1].usize(), V::None); "N".to_string() },
            }
        },
        "answer" => match st.ss(op[2].usize()) { None => "skip".to_string(),
            Some(ss) => dump(&st.goal(op[1].usize()).replace_variables(&ss)) },
        "fmtsol" => match st.ss(op[2].usize()) { None => "skip".to_string(),
            Some(ss) => { let q = st.goal(op[1].usize()); let r = q.replace_variables(&ss); format_solution(&q, &r) } },
        "solve" => solve(st.node(op[1].usize())),
        "solve_all" => { let v = solve_all(st.node(op[1].usize())); v.iter().map(|s| quote(s)).collect::<Vec<_>>().join(",") },
        "stop" => { stop_query(); "ok".to_string() },
        "start" => { start_query(); "ok".to_string() },
        "stopped" => format!("{}", query_stopped()),
        "expire" => {
            // a real expiry of the timer thread, then the cancel every driver does afterwards
            let t = start_query_timer(1);
            let t0 = std::time::Instant::now();
            while !query_stopped() && t0.elapsed().as_secs() < 20 { std::thread::sleep(std::time::Duration::from_millis(1)); }
            std::thread::sleep(std::time::Duration::from_millis(5));
            cancel_timer(t);
            "ok".to_string()
        },
        "stop_at" => { hook_stop_at(op[1].i64()); "ok".to_string() },
        "evalf" => {
            // evaluate an arithmetic / join function directly
            let args: Vec<Unifiable> = op[2].arr().iter().map(|r| st.term(r.usize())).collect();
            let args: &'static Vec<Unifiable> = Box::leak(Box::new(args));
            match st.ss(op[3].usize()) { None => "skip".to_string(), Some(ss) => {
                let ssr = leak_ss(ss);
                let r = match op[1].str() {
                    "add" => evaluate_add(args, ssr), "subtract" => evaluate_subtract(args, ssr),
                    "multiply" => evaluate_multiply(args, ssr), "divide" => evaluate_divide(args, ssr),
                    "join" => evaluate_join(args, ssr),
                    other => panic!("vreplay: unknown function {}", other) };
                dump(&r) } }
        },
        "count_terms" => match st.ss(op[2].usize()) { None => "skip".to_string(),
            Some(ss) => format!("{}", count_terms(&st.term(op[1].usize()), &ss)) },
        "fmtprint" => { let v: Vec<String> = op[1].arr().iter().map(|s| s.str().to_string()).collect(); format_for_print_pred(&v) },
        _ => panic!("vreplay: unknown op {}", name),
    }
}

#[cfg(suiron_verif)]
fn hook_stop_at(n: i64) { suiron::time_out::verif_stop_at(n); }
#[cfg(not(suiron_verif))]
fn hook_stop_at(_n: i64) { panic!("vreplay: built without --cfg suiron_verif"); }

fn main() {
    let args: Vec<String> = std::env::args().collect();
    let text = if args.len() > 1 { std::fs::read_to_string(&args[1]).unwrap() }
               else { let mut s = String::new(); std::io::Read::read_to_string(&mut std::io::stdin(), &mut s).unwrap(); s };
    let sc = json::parse(&text);
    std::panic::set_hook(Box::new(|_| {}));
    let mut st = St { regs: vec![], tmp_counter: 0 };
    for (i, op) in sc.get("ops").arr().iter().enumerate() {
        let opv = op.arr();
        let r = catch_unwind(AssertUnwindSafe(|| run_op(&mut st, opv)));
        let obs = match r {
            Ok(s) => s,
            Err(e) => {
                let msg = if let Some(s) = e.downcast_ref::<&str>() { s.to_string() }
                          else if let Some(s) = e.downcast_ref::<String>() { s.clone() } else { "?".to_string() };
                if msg.starts_with("vreplay:") { eprintln!("{}", msg); std::process::exit(3); }
                // the destination register (if any) is undefined after a panic
                format!("PANIC:{}", msg)
            }
        };
        print!("\n@@OBS {} {}\n", i, quote(&obs));
        std::io::stdout().flush().unwrap();
    }
}
