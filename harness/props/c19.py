"""C19 - canonical source text parses and prints back unchanged."""
import z3
from mirsym.machine import Sym
from ..engine import Violation
from ..driver import ScenarioEnd
from .. import grammar as G
from .. import refunify as R
from .unify_common import struct_eq

ANCHORS = ['parse_term', 'make_term', 'parse_subgoal', 'generate_goal', 'parse_rule', 'token_tree_to_goal', '>::fmt']
WITNESSES = {'all': ['term', 'goal', 'body', 'rule', 'sugar', 'symbolic-position', 'short-fact']}
OPTS = {'quick': {'selfcheck_mod': 30, 'budget_s': 280}, 'thorough': {'selfcheck_mod': 300, 'budget_s': 3000}}
STEP_LIMIT = 600_000
BOUNDS = {
    'quick': 'canonical texts generated from the grammar in harness/grammar.py: terms to nesting depth 1 (atoms incl. one with an inner space, integers, negative integers, floats with a '
             'fractional part, variables, `$_`, lists with and without tail variable, complex terms incl. zero arity, function terms), every goal form (calls, each built-in, `=`, '
             'named comparisons, not/time), conjunctions / disjunctions / disjunctions of conjunctions of 2-3 goals, facts and rules over them; each text as written and with every '
             '3rd letter/digit position replaced by a symbolic character of the same class (a-z, A-Z, 0-9 / 1-9); plus infix comparison and arithmetic sugar and short facts (`p.`, `go.`)',
    'thorough': 'terms to depth 2, every replaceable position symbolic, two symbolic positions for texts of up to 12 characters',
}
OUTSIDE = 'texts beyond the depth bound; floats whose shortest decimal form differs from the text (e.g. 10.0); atoms that need quoting'
ASSUMPTIONS = ['a zero-arity complex term prints as name() (the form the suite pins), so name() is the canonical text and the bare name is accepted sugar']

CLS = {'l': (97, 122), 'u': (65, 90), 'd': (48, 57), 'n': (49, 57)}


def cases(tier, seed):
    out = []
    d = 1 if tier == 'quick' else 2
    fams = [('term', 'term', G.terms(d)), ('goal', 'subgoal', G.goals(1)), ('body', 'goal', G.bodies(1)), ('rule', 'rule', G.rules(1))]
    step = 3 if tier == 'quick' else 1
    for fam, entry, texts in fams:
        for t in texts:
            s = G.s(t)
            out.append({'id': '%s %r' % (fam, s), 'fam': fam, 'entry': entry, 'text': t, 'pos': [], 'canon': True})
            rep = [i for i, (c, k) in enumerate(t) if k != '-']
            for j, i in enumerate(rep):
                if j % step == (len(s) % step): 
                    out.append({'id': '%s %r pos %d' % (fam, s, i), 'fam': fam, 'entry': entry, 'text': t, 'pos': [i], 'canon': True})
            if tier != 'quick' and len(s) <= 12:
                for i in rep:
                    for j in rep:
                        if i < j: out.append({'id': '%s %r pos %d,%d' % (fam, s, i, j), 'fam': fam, 'entry': entry, 'text': t, 'pos': [i, j], 'canon': True})
    for t, want in zip(G.sugar_goals(), [w for _, w in G.SUGAR]):
        out.append({'id': 'sugar %r' % G.s(t), 'fam': 'sugar', 'entry': 'subgoal', 'text': t, 'pos': [], 'canon': False, 'want': want})
    for t in G.short_facts():
        out.append({'id': 'short fact %r' % G.s(t), 'fam': 'short-fact', 'entry': 'rule', 'text': t, 'pos': [], 'canon': False})
    return out


def chars_eq(m, a, b):
    if len(a) != len(b): return False
    for x, y in zip(a, b):
        if isinstance(x, str) and isinstance(y, str):
            if x != y: return False
        elif not m.branch(m.binop('Eq', x, y)): return False
    return True


def txt(cs): return ''.join(c if isinstance(c, str) else '?' for c in cs)


def goal_eq(m, a, b):
    if a[0] != b[0]: return False
    k = a[0]
    if k == 'gnil': return True
    if k == 'gc': return struct_eq(m, a[1], b[1])
    if k == 'gb':
        if not R.name_eq(m, a[1], b[1]): return False
        if a[2] is None or b[2] is None: return a[2] is None and b[2] is None
        return len(a[2]) == len(b[2]) and all(struct_eq(m, x, y) for x, y in zip(a[2], b[2]))
    return len(a[1]) == len(b[1]) and all(goal_eq(m, x, y) for x, y in zip(a[1], b[1]))


def value_eq(m, kind, a, b):
    if kind == 'term': return struct_eq(m, a, b)
    if kind == 'goal': return goal_eq(m, a, b)
    return struct_eq(m, a[1], b[1]) and goal_eq(m, a[2], b[2])


def run(drv, case):
    m = drv.m
    chars = []
    for i, (c, k) in enumerate(case['text']):
        if i in case['pos']:
            v = m.fresh('c%d' % i, 'char')
            if isinstance(v, Sym):
                lo, hi = CLS[k]
                m.assume(Sym(z3.And(z3.UGE(v.e, lo), z3.ULE(v.e, hi)), 'bool'))
            chars.append(v)
        else: chars.append(c)
    entry = case['entry']
    desc = case['id']
    try:
        r, res = drv.parse(entry, chars)
        if res[0] != 'ok':
            raise Violation('rejected:%s' % case['fam'], '%s: the parser rejects %r: %s' % (desc, txt(chars), txt(res[1].chars)[:150]))
        v1 = drv.dump(r)
        printed = drv.show(r)
        if case['canon'] and not chars_eq(m, printed, chars):
            raise Violation('prints-differently:%s' % case['fam'], '%s: %r prints as %r' % (desc, txt(chars), txt(printed)))
        if case.get('want') and not chars_eq(m, printed, list(case['want'])):
            raise Violation('wrong-canonical-form:%s' % case['fam'], '%s: %r prints as %r, the named form is %r' % (desc, txt(chars), txt(printed), case['want']))
        r2, res2 = drv.parse(entry, printed)
        if res2[0] != 'ok':
            raise Violation('printed-text-rejected:%s' % case['fam'], '%s: the printed text %r is rejected: %s' % (desc, txt(printed), txt(res2[1].chars)[:150]))
        v2 = drv.dump(r2)
        if not value_eq(m, r.kind, v1, v2):
            raise Violation('reparse-differs:%s' % case['fam'], '%s: parsing the printed text %r gives a different value' % (desc, txt(printed)))
        if not case['canon']:
            p2 = drv.show(r2)
            if not chars_eq(m, p2, printed):
                raise Violation('print-unstable:%s' % case['fam'], '%s: printed %r, after reparsing %r' % (desc, txt(printed), txt(p2)))
    except ScenarioEnd as e:
        raise Violation('%s:%s' % (e.why[0], case['fam']), '%s: %s: %s' % (desc, e.why[0], e.why[1][:200]))
    tags = [case['fam']] + (['symbolic-position'] if case['pos'] else [])
    return {'tags': tags, 'note': desc}
