"""Shared harness for the program-level properties (C01-C05, C11, C22, C23): build the knowledge base through the
real constructors, run the real search, run the reference interpreter, compare."""
from mirsym.machine import PathInfeasible
from ..engine import Violation
from ..driver import ScenarioEnd
from .. import refunify as R
from .. import refsld as S
from .. import progs as P

ANCHORS = ['next_solution', 'next_solution_and', 'next_solution_or', 'make_solution_node', 'get_rule', 'count_rules', 'make_query', '>::unify']
MODES = ('suiron', 'noreentry', 'iso')


def preds_of(g, acc):
    if g is None: return
    k = g[0]
    if k == 'gc': acc.add((g[1][1][0][1], len(g[1][1]) - 1))
    elif k in ('gand', 'gor', 'gnot', 'gtime'):
        for x in g[1]: preds_of(x, acc)


def needed_base(test_clauses):
    """the base clauses reachable from the test clauses (the others cannot influence the search)"""
    want, done = set(), set()
    for h, b in test_clauses: preds_of(b, want)
    out_keys = set()
    while want - done:
        k = (want - done).pop(); done.add(k)
        for h, b in P.BASE:
            if (h[1][0][1], len(h[1]) - 1) == k:
                out_keys.add(k); preds_of(b, want)
    return [c for c in P.BASE if (c[0][1][0][1], len(c[0][1]) - 1) in out_keys]


DATA_CHOICES = [(3, 7), (5, 5), (1, -2)]


def program(m, case):
    syms = {}
    if case.get('concrete_data'):
        # programs whose output is the subject print their data: the two data integers are one of three concrete pairs (distinct, equal,
        # one equal to a fact of n/1) instead of solver variables, so that the reference can print them
        i, j = DATA_CHOICES[m.choose(len(DATA_CHOICES))]
        syms = {'I': i, 'J': j}
    clauses = [P.inst(m, c, syms) for c in needed_base(case['clauses'])] + [P.inst(m, tuple(c), syms) for c in case['clauses']]
    query = P.inst(m, tuple(case['query']), syms)
    return clauses, query


def jsonable(x):
    if isinstance(x, tuple): return [jsonable(y) for y in x]
    return x


def untuple(x):
    """JSON round trip turns tuples into lists: restore"""
    if isinstance(x, list): return tuple(untuple(y) for y in x)
    return x


def reference(m, clauses, query, max_answers, modes):
    """reference runs in every admitted reading; -> list of (mode, result) with distinct results merged"""
    outs = []
    for mode in modes:
        ref = P.ref_search(m, clauses, query, max_answers, mode)
        outs.append((mode, ref))
        if not ref[3].cut_in_disjunction: break     # no cut inside a disjunction was executed: all readings coincide
    return outs


def run_and_compare(drv, case, check_output=True, reask=0, max_answers=8, modes=MODES):
    """-> (run, ref, tags).  Raises Violation; returns None when the program is outside the claim"""
    m = drv.m
    case = dict(case); case['clauses'] = untuple(case['clauses']); case['query'] = untuple(case['query'])
    clauses, query = program(m, case)
    desc = '%s  ?- %s' % (' '.join(P.ctext(c) for c in case['clauses']), P.ttext(case['query']))
    try:
        refs = reference(m, clauses, query, max_answers, modes)
    except S.Outside as e:
        return None, None, ['outside-claim:' + e.why.split(' ')[0]], desc
    kb = P.build_kb(drv, clauses)
    try:
        run = P.impl_search(drv, kb, query, max_answers, reask)
    except ScenarioEnd as e:
        raise Violation('search-%s' % e.why[0], '%s: the search %s: %s' % (desc, 'panics' if e.why[0] == 'panic' else 'does not return', e.why[1][:200]))
    problem = None
    for mode, ref in refs:
        problem = P.compare_runs(m, run, ref, desc, check_output=check_output)
        if problem is None: break
    tags = []
    ref = refs[0][1]
    if ref[3].cut_in_disjunction: tags.append('cut-inside-disjunction(%s)' % (mode if problem is None else 'none'))
    if problem is not None:
        raise Violation(problem[0] + ':' + case.get('fam', ''), problem[1])
    if run.answers: tags.append('has-answers')
    if len(run.answers) > 1: tags.append('several-answers')
    if not run.answers: tags.append('no-answer')
    if any(run.outs): tags.append('writes-output')
    return run, ref, tags, desc
