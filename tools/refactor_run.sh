#!/bin/bash
# usage: tools/refactor_run.sh <diff>  -- applies a behaviour-preserving change in a scratch worktree and runs every quick check on it
P=$(realpath "$1")
W=$(mktemp -d /tmp/refalt.XXXXXX); rmdir "$W"
git -C /repo worktree add -q --detach "$W" HEAD || exit 2
cp /repo/Cargo.lock "$W"/ 2>/dev/null
git -C "$W" apply "$P" || { echo "patch does not apply"; git -C /repo worktree remove --force "$W"; exit 2; }
cd /verif
for c in $(python3 -c "import json; print(' '.join(c['property_id'] for c in json.load(open('MANIFEST.json'))['checks']))"); do
  out=$(VERIF_REPO="$W" VERIF_JOBS=${VERIF_JOBS:-12} timeout 1800 ./check $c --tier quick 2>&1); rc=$?
  echo "rc=$rc $c $(echo "$out" | tail -1 | cut -c1-120)"
  [ $rc -ne 0 ] && echo "$out" | grep -E "^VIOL|^  |^INCON" | cut -c1-260 | head -4
done
git -C /repo worktree remove --force "$W"
rm -rf /verif/.cache-alt-$(python3 -c "import hashlib,sys; print(hashlib.sha1(sys.argv[1].encode()).hexdigest()[:8])" "$W")
