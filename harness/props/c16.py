"""C16 - append concatenates the elements of its arguments."""
import itertools
from mirsym.machine import Sym, PathInfeasible
from ..engine import Violation
from ..driver import ScenarioEnd
from .. import refunify as R
from .. import universe as U
from .. import heap as H
from . import bip_common as B
from .unify_common import struct_eq, build_pterm, same_state

ANCHORS = ['next_solution_append', 'make_linked_list', 'recreate_variables']
WITNESSES = {'all': ['succeeds', 'fails', 'bound-tail', 'nested-element', 'through-variable', 'out-bound-right', 'out-bound-wrong', 'out-partial-list', 'in-a-rule-body']}
OPTS = {'quick': {'selfcheck_mod': 25, 'budget_s': 280}, 'thorough': {'selfcheck_mod': 200, 'budget_s': 2400}}
STEP_LIMIT = 120_000
NATIVE_TIMEOUT = 5.0
BOUNDS = {
    'quick': 'append(T1..Tn, Out), n = 1-3, each Ti from: a, symbolic i64, f(a), [], [b], [b, c], [[b]], [b, []], [b | $T] with $T bound to [c] or [], bound through a second variable, or bound to a list that itself ends in a bound tail, each also through a variable bound to it '
             '(directly or via a second variable); Out unbound, bound to the right list, bound to a wrong list, bound to a list pattern of unbound variables with a tail variable (as many heads as elements, one less, one more); asked twice; 120k-statement step limit (a spin shows as a hang); 30 programs with append in a rule body (arguments with variables inside complex terms and lists, filled in from the head), answers compared with the reference',
    'thorough': 'n up to 4 and tails bound through a chain of two variables',
}
OUTSIDE = 'lists with an unbound tail variable as append input; arguments that are unbound variables'
ASSUMPTIONS = ['Out is compared after full resolution, so it does not matter whether elements are stored as bound variables or as their values']

ARGS = [['a'], ['i'], ['f', ['a']], ['e'], ['l', 'p', [['b']], None], ['l', 'p', [['b'], ['q', 'c']], None], ['l', 'p', [['l', 'p', [['b']], None]], None],
        ['l', 'p', [['b'], ['e']], None], ['bt', [['b']], [['q', 'c']]], ['bt', [['b']], []],
        ['btc', [['b']], [['q', 'c'], ['q', 'd']]], ['btn', [['b']], [['q', 'c']], [['q', 'd'], ['e']]]]


def cases(tier, seed):
    out = []
    nmax = 3 if tier == 'quick' else 4
    forms = [(a, 0) for a in ARGS] + [(a, 1) for a in ARGS] + [(a, 2) for a in ARGS[:6]]
    for n in range(1, nmax + 1):
        pool = forms if n <= 2 else [(a, 0) for a in ARGS] if n == 3 else [(a, 0) for a in ARGS[:1] + ARGS[4:9]]
        for combo in itertools.product(pool, repeat=n):
            for outk in (('unbound', 'right', 'wrong', 'partial-eq', 'partial-less', 'partial-more') if n <= 2 else ('unbound',)):
                if outk.startswith('partial') and any(c for _, c in combo): continue
                out.append({'id': 'append(%s) out %s' % (', '.join('%s/%d' % (txt(a), c) for a, c in combo), outk),
                            'args': [[a, c] for a, c in combo], 'out': outk})
    from .. import progs as P
    for i, (cl, q) in enumerate(rule_programs()):
        out.append({'id': 'in a rule: %s ?- %s' % (P.ctext(cl[0]), P.ttext(q)), 'fam': 'rule', 'i': i})
    return out


def rule_programs():
    """append written in a rule body: its arguments go through the renaming of the fetched clause and get their values from the head"""
    from ..progs import V, A, C, L, I, gc, gb, AND, U as UNI
    X, Y, O, Lv = V('X'), V('Y'), V('Out'), V('L')
    ap = lambda *a: gb('append', *a)
    bodies = [ap(L(C('f', X)), A('b'), O), ap(L(X), L(C('g', X, Y)), O), ap(X, L(A('k')), O), ap(L(L(X)), L(), O), ap(C('f', X), C('f', C('g', Y)), O),
              AND(UNI(Lv, L(X, tail=Y)), ap(Lv, A('z'), O)), AND(UNI(Lv, L(C('f', X), L(Y))), ap(A('z'), Lv, O)), ap(L(I(1), C('f', C('f', X))), Y, O),
              ap(L(A('a'), tail=Y), X, O), AND(gc('l', Lv), ap(Lv, L(C('f', X)), O))]
    out = []
    for b in bodies:
        for q in (C('t', A('a'), L(A('b')), O), C('t', L(A('a'), A('b')), L(), O), C('t', I(7), L(L(A('c'))), O)):
            out.append(([(C('t', X, Y, O), b)], q))
    return out


def run_rule(drv, case):
    from .. import progs as P
    from .. import refsld as S
    from . import prog_common as PC
    m = drv.m
    clauses, query = rule_programs()[case['i']]
    clauses = [P.inst(m, c, {}) for c in PC.needed_base(clauses)] + clauses
    desc = case['id']
    try:
        ref = P.ref_search(m, clauses, query, 4)
    except S.Outside:
        return {'tags': ['outside-claim'], 'nontrivial': False}
    kb = P.build_kb(drv, clauses)
    try:
        run_ = P.impl_search(drv, kb, query, 4, 0)
    except ScenarioEnd as e:
        raise Violation('rule-%s' % e.why[0], '%s: %s' % (desc, e.why[1][:200]))
    problem = P.compare_runs(m, run_, ref, desc)
    if problem is not None: raise Violation('rule-' + problem[0], problem[1])
    return {'tags': ['in-a-rule-body'] + (['succeeds'] if run_.answers else ['fails']), 'note': desc}


def txt(a):
    if a[0] == 'bt': return '[%s | $T=%s]' % (', '.join(U.text(x) for x in a[1]), '[' + ', '.join(U.text(x) for x in a[2]) + ']')
    if a[0] == 'btc': return '[%s | $T->$U=%s]' % (', '.join(U.text(x) for x in a[1]), '[' + ', '.join(U.text(x) for x in a[2]) + ']')
    if a[0] == 'btn': return '[%s | $T=[%s | $U=%s]]' % (', '.join(U.text(x) for x in a[1]), ', '.join(U.text(x) for x in a[2]), '[' + ', '.join(U.text(x) for x in a[3]) + ']')
    return U.text(a)


def run(drv, case):
    if case.get('fam') == 'rule': return run_rule(drv, case)
    m = drv.m
    env = B.Env(drv, first_id=10)
    terms, want = [], []
    tags = set()
    for i, (a, chain) in enumerate(case['args']):
        if a[0] in ('bt', 'btc', 'btn'):
            tv = env.var('$T')
            head = tuple(U.inst(m, x, 'a%d.h' % i) for x in a[1])
            if a[0] == 'bt':
                env.bind(tv, ('plist', tuple(U.inst(m, x, 'a%d.t' % i) for x in a[2]), None))
                rest = list(a[2])
            elif a[0] == 'btc':     # the tail variable is bound to another variable, which is bound to the list
                uv = env.var('$U')
                env.bind(uv, ('plist', tuple(U.inst(m, x, 'a%d.t' % i) for x in a[2]), None))
                env.bind(tv, uv)
                rest = list(a[2])
            else:                   # the tail is bound to a list that itself ends in a bound tail variable
                uv = env.var('$U')
                env.bind(uv, ('plist', tuple(U.inst(m, x, 'a%d.u' % i) for x in a[3]), None))
                env.bind(tv, ('plist', tuple(U.inst(m, x, 'a%d.t' % i) for x in a[2]), uv))
                rest = list(a[2]) + list(a[3])
            t = ('plist', head, tv)
            want += [build_pterm(x) for x in head] + [build_pterm(U.inst(m, x, 'a%d.r' % i)) for x in rest]
            tags.add('bound-tail')
        else:
            t = U.inst(m, a, 'a%d' % i)
            at = build_pterm(t)
            if at[0] == 'lst':
                want += list(at[1])
                if any(x[0] == 'lst' for x in at[1]): tags.add('nested-element')
            else: want.append(at)
        if chain: tags.add('through-variable')
        terms.append(env.via_chain(t, chain))
    wantl = ('lst', tuple(want), None)
    out = env.var('$Out')
    if case['out'] == 'right':
        env.bind(out, ('plist', tuple(to_spec(x) for x in want), None)); tags.add('out-bound-right')
    elif case['out'] == 'wrong':
        env.bind(out, ('plist', tuple(to_spec(x) for x in want) + (('atom', 'zz'),), None)); tags.add('out-bound-wrong')
    free = {out[1]}
    if case['out'].startswith('partial'):
        # Out is already a list pattern: k unbound head variables and a tail variable
        k = len(want) + {'partial-eq': 0, 'partial-less': -1, 'partial-more': 1}[case['out']]
        if k < 0: return {'tags': ['no-such-pattern'], 'nontrivial': False}
        hs = [env.var('$P%d' % i) for i in range(k)]; pt = env.var('$PT')
        env.bind(out, ('plist', tuple(hs), pt)); tags.add('out-partial-list')
        free |= {h[1] for h in hs} | {pt[1]}
    kb = drv.kb([])
    before = drv.dumpss(env.ss)
    try:
        r1, r2 = B.run_goal(drv, kb, ('gb', 'append', tuple(terms) + (out,)), env.ss)
    except ScenarioEnd as e:
        raise Violation('append-%s' % e.why[0], '%s: %s' % (case['id'], e.why[1]))
    expect = case['out'] not in ('wrong', 'partial-more')
    tags.add('succeeds' if expect else 'fails')
    if (r1.h is not None) != expect:
        raise Violation('append-outcome:' + case['out'], '%s: the goal %s; the concatenation is %s' % (case['id'], 'succeeds' if r1.h is not None else 'fails', R.show(wantl)))
    if r2.h is not None:
        raise Violation('more-than-once:append', case['id'] + ': a second answer was produced')
    if r1.h is not None:
        after = drv.dumpss(r1)
        isub = R.impl_sub(after)
        try:
            got = R.resolve_impl(out, isub)
        except R.Cycle:
            raise Violation('append-cycle', case['id'] + ': Out is on a binding cycle')
        bad = R.has_bad(got)
        if bad:
            raise Violation('append-ill-formed', '%s: Out resolves to an ill-formed list (%s)' % (case['id'], bad))
        wres = R.resolve_impl(wantl, isub)
        if not R.alpha_eq(m, got, wres, {}, {}):
            raise Violation('append-wrong-list', '%s: Out = %s, the concatenation is %s' % (case['id'], R.show(got), R.show(wres)))
        # nothing but Out may be bound
        for i, e in enumerate(before):
            if not struct_eq(m, e, after[i]) and not (e is None and i in free):
                raise Violation('append-binds-other', '%s: variable %d changed' % (case['id'], i))
        for i in range(len(before), len(after)):
            if after[i] is not None and i not in free:
                raise Violation('append-binds-other', '%s: variable %d got bound' % (case['id'], i))
    return {'tags': list(tags), 'note': case['id']}


def to_spec(a):
    """abstract term -> build spec"""
    if a[0] == 'lst': return ('plist', tuple(to_spec(x) for x in a[1]), a[2])
    if a[0] == 'cplx': return ('cplx', tuple(to_spec(x) for x in a[1]))
    return a
