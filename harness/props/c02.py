"""C02 - cut commits to its clause and ends the call."""
from ..engine import Violation
from .. import progs as P
from ..progs import V, A, C, L, I, gc, gb, AND, OR, NOT, U, F, X, Y, Z
from . import prog_common as PC

ANCHORS = PC.ANCHORS + ['set_no_backtracking', 'next_solution_bip']
WITNESSES = {'all': ['cut-executed', 'cut-then-failure-with-later-clause', 'caller-backtracks-over-call', 'has-answers', 'no-answer']}
OPTS = {'quick': {'selfcheck_mod': 120, 'budget_s': 280}, 'thorough': {'selfcheck_mod': 1500, 'budget_s': 3000}}
STEP_LIMIT = 1_500_000
BOUNDS = {
    'quick': 'rule t($X) :- BODY followed by the fact t(z) (a later clause that a cut must exclude); BODY = every conjunction / disjunction / mixed shape of up to 3 goals over '
             '{p($X), q($X), r($X, $Y), $X = b, `!`, fail, q($Y)} containing at least one `!`; queried directly (t($X), t(b)) and through callers w($X, $Y) :- p($Y), t($X) '
             '(a sibling goal before the call must keep backtracking) and v($X) :- t($X) ; $X = zz (the caller\'s alternative must survive); plus 400 four-goal bodies in which a disjunction stands next to a cut and a goal after the cut can fail, and 500 five-goal bodies with a test between a 2- or 3-alternative disjunction and the cut; 225 bodies `L, [test,] !, K` whose left goal L is defined by rules only (single call, disjunction, recursion, conjunction, facts then a rule), so that its first answer comes out of a rule body with more answers; up to 8 answers compared',
    'thorough': 'adds n($X), $X < 3, member, a second cut-bearing clause and bodies of 4 goals in the flat conjunction shape',
}
OUTSIDE = 'cut inside not(...) and time(...); a cut inside a disjunction: three readings are accepted (DESIGN C02) and the evidence counts which one the engine follows'
ASSUMPTIONS = ['documented Suiron cut: after `!` ran in a call, that call gives at most the answer being derived; no later clause; goals left of the cut are not retried']

CUT = gb('!')
MENU = [gc('p', X), gc('q', X), gc('r', X, Y), U(X, A('b')), CUT, gb('fail'), gc('q', Y)]
MENU_T = MENU + [gc('n', X), gb('less_than', X, I(3)), gc('member', X, L(A('c'), A('a')))]


def has_cut(g):
    if g == CUT: return True
    return g[0] in ('gand', 'gor') and any(has_cut(x) for x in g[1])


def cases(tier, seed):
    out = []
    menu = MENU if tier == 'quick' else MENU_T
    callers = {
        'direct': ([], C('t', X)),
        'ground': ([], C('t', A('b'))),
        'sibling': ([(C('w', X, Y), AND(gc('p', Y), gc('t', X)))], C('w', X, Y)),
        'alt': ([(C('v', X), OR(gc('t', X), U(X, A('zz'))))], C('v', X)),
    }
    for b in P.bodies(menu, 3):
        if not has_cut(b): continue
        for nm, (extra, q) in callers.items():
            cl = [(C('t', X), b), (C('t', A('z')), None)] + extra
            out.append({'id': '%s [%s]|%d' % (P.ctext(cl[0]), nm, len(out)), 'fam': nm, 'clauses': PC.jsonable(tuple(cl)), 'query': PC.jsonable(q)})
    # a disjunction next to a cut, with a goal after the cut that can fail: 4 goals
    import itertools
    core = [gc('p', X), gc('n', X), U(X, A('b')), U(X, I(5)), gb('equal', X, A('b')), gb('equal', X, I(5)), gb('fail')]
    for g, h in itertools.product(core[:4], repeat=2):
        for k in core[2:]:
            for b in (AND(OR(g, h), CUT, k), AND(OR(AND(g, CUT), h), k), AND(g, OR(h, CUT), k), AND(OR(g, AND(h, CUT)), k), AND(CUT, OR(g, h), k)):
                cl = [(C('t', X), b), (C('t', A('z')), None)]
                out.append({'id': '%s [direct]|%d' % (P.ctext(cl[0]), len(out)), 'fam': 'direct', 'clauses': PC.jsonable(tuple(cl)), 'query': PC.jsonable(C('t', X))})
    # ... and with a test between the disjunction and the cut, so that the cut runs when the disjunction is already past its
    # first alternative: 5 goals, and a 3-alternative disjunction
    tests = [gb('equal', X, A('b')), gb('equal', X, I(5)), gb('greater_than', X, I(1)), gc('q', X)]
    for g, h in itertools.product(core[:4], repeat=2):
        for t in tests:
            for k in core[4:] + [gb('equal', X, I(1))]:
                for b in (AND(OR(g, h), t, CUT, k), AND(OR(g, h, gc('n', X)), t, CUT, k)):
                    cl = [(C('t', X), b), (C('t', A('z')), None)]
                    out.append({'id': '%s [direct]|%d' % (P.ctext(cl[0]), len(out)), 'fam': 'direct', 'clauses': PC.jsonable(tuple(cl)), 'query': PC.jsonable(C('t', X))})
    # goals to the left of the cut that are defined by rules (their first answer comes out of a rule body that has more answers), a test after the cut
    lefts = [gc('via1', X), gc('via2', X), gc('via3', X), gc('via4', X), gc('d', X)]
    after = [gb('equal', X, A('c')), gb('equal', X, A('b')), U(X, A('b')), gb('fail'), gc('p', X)]
    for l in lefts:
        for k in after:
            for t0 in (None, gb('equal', X, A('b')), gc('q', X)):
                b = AND(l, CUT, k) if t0 is None else AND(l, t0, CUT, k)
                for nm, (extra, q) in callers.items():
                    if nm == 'ground': continue
                    cl = [(C('t', X), b), (C('t', A('z')), None)] + extra
                    out.append({'id': '%s [%s]|%d' % (P.ctext(cl[0]), nm, len(out)), 'fam': nm, 'clauses': PC.jsonable(tuple(cl)), 'query': PC.jsonable(q)})
    if tier != 'quick':
        for gs in itertools.product(MENU, repeat=4):
            b = AND(*gs)
            if not has_cut(b): continue
            cl = [(C('t', X), b), (C('t', A('z')), None)]
            out.append({'id': '%s [direct]|%d' % (P.ctext(cl[0]), len(out)), 'fam': 'direct', 'clauses': PC.jsonable(tuple(cl)), 'query': PC.jsonable(C('t', X))})
    return out


def run(drv, case):
    run, ref, tags, desc = PC.run_and_compare(drv, case, check_output=False)
    if run is None: return {'tags': tags, 'nontrivial': False}
    it = ref[3]
    if it.cut_ran: tags.append('cut-executed')
    if it.cut_ran and not run.answers: tags.append('cut-then-failure-with-later-clause')
    if case['fam'] == 'sibling' and len(run.answers) > 1: tags.append('caller-backtracks-over-call')
    return {'tags': tags, 'note': desc}
