"""Python-level terms <-> mirsym heap objects <-> vreplay JSON specs <-> canonical dump text.

Python term representation ("pterm"), tuples:
  ('nil',) ('anon',) ('atom', name) ('int', v) ('float', v) ('var', id, name)
  ('cplx', (t0, t1, ...))            t0 is the functor atom
  ('node', term, next, count, tv)    one raw SLinkedList node
  ('func', name, (args...))
Build-only specs (never appear in results):
  ('mklist', vbar, (items...))       run the crate's make_linked_list
  ('plist', (items...), tail)        the chain parse_linked_list builds: link_front onto the empty node;
                                     tail is None or a ('var',..) / ('anon',) term placed last with tail_var=true
`name` is a python str, or a tuple of characters some of which are Sym (symbolic).
`v` is a python int/float or a Sym.
"""
import struct
from mirsym.machine import (Agg, Cell, Ptr, VecV, RStr, RcV, Sym, Unsupported, StrRef)

EMPTY = ('node', ('nil',), ('nil',), 0, False)


def is_sym(x): return isinstance(x, Sym)


def name_chars(name):
    return list(name) if isinstance(name, (str, tuple, list)) else [name]


def name_concrete(name):
    if isinstance(name, str): return True
    return all(isinstance(c, str) for c in name)


def norm_name(chars):
    """list of chars -> str when fully concrete, else tuple"""
    if all(isinstance(c, str) for c in chars): return ''.join(chars)
    return tuple(chars)


def plist(items, tail=None):
    """explicit node chain as parse_linked_list/link_front builds it"""
    node = EMPTY
    cnt = 0
    seq = list(items)
    if tail is not None:
        cnt += 1
        node = ('node', tail, node, cnt, True)
    for it in reversed(seq):
        cnt += 1
        node = ('node', it, node, cnt, False)
    return node


class Heap:
    def __init__(self, m):
        self.m = m
        self.UV = {n: i for i, n in enumerate(m.enums['Unifiable'])}
        self.GV = {n: i for i, n in enumerate(m.enums['Goal'])}
        self.OV = {n: i for i, n in enumerate(m.enums['Operator'])}

    # ------------------------------------------------------------ build
    def uni(self, variant, vals):
        return Agg('Unifiable', variant, self.UV[variant], vals)

    def rstr(self, name):
        return RStr(name_chars(name))

    def build(self, t):
        k = t[0]
        if k == 'nil': return self.uni('Nil', [])
        if k == 'anon': return self.uni('Anonymous', [])
        if k == 'atom': return self.uni('Atom', [self.rstr(t[1])])
        if k == 'int': return self.uni('SInteger', [t[1]])
        if k == 'float': return self.uni('SFloat', [t[1]])
        if k == 'var': return self.uni('LogicVar', [t[1], self.rstr(t[2])])
        if k == 'cplx': return self.uni('SComplex', [VecV([Cell(self.build(x)) for x in t[1]])])
        if k == 'node':
            return self.uni('SLinkedList', [Ptr(Cell(self.build(t[1])), 'box'), Ptr(Cell(self.build(t[2])), 'box'), t[3], t[4]])
        if k == 'func':
            return self.uni('SFunction', [self.rstr(t[1]), VecV([Cell(self.build(x)) for x in t[2]])])
        if k == 'mklist':
            v = VecV([Cell(self.build(x)) for x in t[2]])
            return self.m.call('s_linked_list::make_linked_list', [t[1], v])
        if k == 'plist':
            return self.build(plist(t[1], t[2]))
        raise ValueError('build: ' + repr(t))

    def build_goal(self, g):
        k = g[0]
        if k == 'gnil': return Agg('Goal', 'Nil', self.GV['Nil'], [])
        if k == 'gc': return Agg('Goal', 'ComplexGoal', self.GV['ComplexGoal'], [self.build(g[1])])
        if k == 'gb':
            terms = Agg('Option', 'None', 0, []) if g[2] is None else \
                Agg('Option', 'Some', 1, [VecV([Cell(self.build(x)) for x in g[2]])])
            bip = Agg('BuiltInPredicate', None, None, [self.rstr(g[1]), terms])
            return Agg('Goal', 'BuiltInGoal', self.GV['BuiltInGoal'], [bip])
        if k in ('gand', 'gor', 'gnot', 'gtime'):
            v = {'gand': 'And', 'gor': 'Or', 'gnot': 'Not', 'gtime': 'Time'}[k]
            op = Agg('Operator', v, self.OV[v], [VecV([Cell(self.build_goal(x)) for x in g[1]])])
            return Agg('Goal', 'OperatorGoal', self.GV['OperatorGoal'], [op])
        raise ValueError('build_goal: ' + repr(g))

    # ------------------------------------------------------------ read back
    def read(self, v):
        while isinstance(v, (Ptr, RcV)): v = v.cell.v
        if not isinstance(v, Agg) or v.ty != 'Unifiable':
            raise Unsupported('read: not a Unifiable: %r' % (v,))
        n = v.variant
        f = [c.v for c in v.fields]
        if n == 'Nil': return ('nil',)
        if n == 'Anonymous': return ('anon',)
        if n == 'Atom': return ('atom', norm_name(as_chars(f[0])))
        if n == 'SInteger': return ('int', f[0])
        if n == 'SFloat': return ('float', f[0])
        if n == 'LogicVar': return ('var', f[0], norm_name(as_chars(f[1])))
        if n == 'SComplex': return ('cplx', tuple(self.read(c.v) for c in f[0].items))
        if n == 'SLinkedList': return ('node', self.read(f[0]), self.read(f[1]), f[2], f[3])
        if n == 'SFunction': return ('func', norm_name(as_chars(f[0])), tuple(self.read(c.v) for c in f[1].items))
        raise Unsupported('read variant ' + n)

    def read_goal(self, v):
        while isinstance(v, (Ptr, RcV)): v = v.cell.v
        n = v.variant
        if n == 'Nil': return ('gnil',)
        if n == 'ComplexGoal': return ('gc', self.read(v.fields[0].v))
        if n == 'BuiltInGoal':
            b = v.fields[0].v
            fn = norm_name(as_chars(b.fields[0].v)); o = b.fields[1].v
            return ('gb', fn, None if o.vidx == 0 else tuple(self.read(c.v) for c in o.fields[0].v.items))
        if n == 'OperatorGoal':
            op = v.fields[0].v
            k = {'And': 'gand', 'Or': 'gor', 'Not': 'gnot', 'Time': 'gtime'}[op.variant]
            return (k, tuple(self.read_goal(c.v) for c in op.fields[0].v.items))
        raise Unsupported('read_goal ' + n)

    def read_rule(self, v):
        while isinstance(v, (Ptr, RcV)): v = v.cell.v
        return ('rule', self.read(v.fields[0].v), self.read_goal(v.fields[1].v))

    def read_ss(self, v):
        """Rc<Vec<Option<Rc<Unifiable>>>> -> list of pterm|None"""
        while isinstance(v, (Ptr, RcV)): v = v.cell.v
        out = []
        for c in v.items:
            o = c.v
            out.append(None if o.vidx == 0 else self.read(o.fields[0].v))
        return out


def as_chars(v):
    while isinstance(v, (Ptr, RcV)): v = v.cell.v
    if isinstance(v, StrRef): v = v.s
    return list(v.chars)


# ---------------------------------------------------------------- canonical dump (mirrors vreplay/src/main.rs)

def quote(s):
    o = ['"']
    for c in s:
        if not isinstance(c, str): o.append('?'); continue      # symbolic character (messages only)
        if c == '"': o.append('\\"')
        elif c == '\\': o.append('\\\\')
        elif c == '\n': o.append('\\n')
        elif c == '\r': o.append('\\r')
        elif c == '\t': o.append('\\t')
        elif ord(c) < 0x20: o.append('\\u%04x' % ord(c))
        else: o.append(c)
    o.append('"')
    return ''.join(o)


def f64_bits(x):
    return struct.unpack('<Q', struct.pack('<d', x))[0]


def bits_f64(b):
    return struct.unpack('<d', struct.pack('<Q', b))[0]


def dump(t):
    k = t[0]
    if k == 'nil': return 'N'
    if k == 'anon': return '_'
    if k == 'atom': return 'A' + quote(t[1])
    if k == 'float': return 'Fnan' if t[1] != t[1] else 'F%016x' % f64_bits(t[1])
    if k == 'int': return 'I%d' % t[1]
    if k == 'var': return 'V%d%s' % (t[1], quote(t[2]))
    if k == 'cplx': return 'C(' + ','.join(dump(x) for x in t[1]) + ')'
    if k == 'node': return 'L(%s,%s,%d,%s)' % (dump(t[1]), dump(t[2]), t[3], 't' if t[4] else 'f')
    if k == 'func': return 'X%s(%s)' % (quote(t[1]), ','.join(dump(x) for x in t[2]))
    raise ValueError('dump: ' + repr(t))


def dump_goal(g):
    k = g[0]
    if k == 'gnil': return 'gN'
    if k == 'gc': return 'gC(' + dump(g[1]) + ')'
    if k == 'gb':
        if g[2] is None: return 'gB' + quote(g[1]) + '-'
        return 'gB' + quote(g[1]) + '(' + ','.join(dump(x) for x in g[2]) + ')'
    nm = {'gand': 'gAnd', 'gor': 'gOr', 'gnot': 'gNot', 'gtime': 'gTime'}[k]
    return nm + '[' + ','.join(dump_goal(x) for x in g[1]) + ']'


def dump_rule(r):
    return 'R(' + dump(r[1]) + ':-' + dump_goal(r[2]) + ')'


def dump_ss(ss):
    return '[' + ','.join('-' if e is None else dump(e) for e in ss) + ']'


# ---------------------------------------------------------------- JSON specs for vreplay

def spec(t):
    k = t[0]
    if k == 'nil': return {'t': 'nil'}
    if k == 'anon': return {'t': 'anon'}
    if k == 'atom': return {'t': 'atom', 's': t[1]}
    if k == 'int': return {'t': 'int', 'v': t[1]}
    if k == 'float': return {'t': 'float', 'bits': '%016x' % f64_bits(t[1])}
    if k == 'var': return {'t': 'var', 'id': t[1], 'name': t[2]}
    if k == 'cplx': return {'t': 'cplx', 'args': [spec(x) for x in t[1]]}
    if k == 'node': return {'t': 'node', 'term': spec(t[1]), 'next': spec(t[2]), 'count': t[3], 'tv': bool(t[4])}
    if k == 'func': return {'t': 'func', 'name': t[1], 'args': [spec(x) for x in t[2]]}
    if k == 'mklist': return {'t': 'mklist', 'vbar': bool(t[1]), 'items': [spec(x) for x in t[2]]}
    if k == 'plist': return spec(plist(t[1], t[2]))
    raise ValueError('spec: ' + repr(t))


def goal_spec(g):
    k = g[0]
    if k == 'gnil': return {'g': 'nil'}
    if k == 'gc': return {'g': 'c', 'term': spec(g[1])}
    if k == 'gb': return {'g': 'b', 'name': g[1], 'args': None if g[2] is None else [spec(x) for x in g[2]]}
    return {'g': k[1:], 'goals': [goal_spec(x) for x in g[1]]}


def has_sym(t):
    """does the pterm contain symbolic leaves?"""
    if isinstance(t, Sym): return True
    if isinstance(t, tuple): return any(has_sym(x) for x in t)
    return False


def subst_model(t, val):
    """replace Sym leaves by val(sym) -> python value"""
    if isinstance(t, Sym): return val(t)
    if isinstance(t, tuple):
        r = tuple(subst_model(x, val) for x in t)
        # names: tuple of chars -> str
        if r and t and t[0] in ('atom',) and isinstance(r[1], tuple): r = ('atom', ''.join(r[1]))
        if r and t and t[0] == 'var' and isinstance(r[2], tuple): r = ('var', r[1], ''.join(r[2]))
        if r and t and t[0] in ('func', 'gb') and isinstance(r[1], tuple): r = (t[0], ''.join(r[1])) + r[2:]
        return r
    return t


# ---------------------------------------------------------------- Display text (reference printer, concrete terms)

def rust_f64(x):
    """Rust's `{}` for f64 (shortest round-trip, never exponent form)."""
    if x != x: return 'NaN'
    if x == float('inf'): return 'inf'
    if x == float('-inf'): return '-inf'
    from decimal import Decimal
    s = repr(float(x))
    if 'e' in s or 'E' in s:
        s = format(Decimal(s), 'f')
    if s.endswith('.0'): s = s[:-2]
    if s == '-0': s = '-0'
    return s


def as_chars_str(v):
    cs = as_chars(v)
    return ''.join(c if isinstance(c, str) else '�' for c in cs)
