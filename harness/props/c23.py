"""C23 - solve/solve_all report real answers or a timeout, never wrong ones."""
from ..engine import Violation
from ..driver import ScenarioEnd
from .. import progs as P
from .. import refsld as S
from .. import refunify as R
from ..progs import V, A, C, L, I, gc, gb, AND, OR, NOT, U, F, X, Y, Z
from . import prog_common as PC
from .c01 import disp

ANCHORS = ['solve', 'solve_all', 'start_query_timer', 'cancel_timer', 'query_stopped', 'count_rules', 'next_solution']
WITNESSES = {'all': ['timer-never-fires', 'timer-fires-mid-search', 'timer-fires-at-first-observation', 'solve', 'solve_all', 'prefix-shorter-than-all', 'after-a-real-timeout', 'built-before-the-timeout']}
OPTS = {'quick': {'selfcheck_mod': 25, 'budget_s': 280}, 'thorough': {'selfcheck_mod': 200, 'budget_s': 3000}}
STEP_LIMIT = 1_500_000
NEEDS_HOOKS = True
TIMEOUT_MSG = 'Query timed out after 1000 milliseconds.'
BOUNDS = {
    'quick': '14 programs (facts with symbolic data, conjunctions, disjunctions, recursion over a 3-element list, not, cut, arithmetic) with 0-6 answers and up to 40 observations of the stop flag; '
             'the timer thread is modelled as an event that may set the flag between any two observations: one exploration branch per firing point (every observation of the run, and "never"); '
             'drivers: solve_all once; solve repeatedly until "No more." or the timeout text; every second program also after another search\'s timer really expired '
             '(start_query_timer, expiry, cancel_timer) before and after the query and its node were built',
    'thorough': '30 programs, including ones with 100+ observations (every 3rd firing point beyond the 40th)',
}
OUTSIDE = 'the real thread and real durations (the timer\'s scheduling is abstracted to its firing point; its data race is C24); what a query returns after it has reported a timeout'
ASSUMPTIONS = ['"finishes well within the limit" is the schedule in which the timer never fires before the search ends',
               'native replay raises the flag at the chosen observation through the cfg(suiron_verif) countdown hook in time_out.rs']

PROGS = [
    ([(C('t', X), gc('p', X))], C('t', X)),
    ([(C('t', X), AND(gc('p', X), gc('q', X)))], C('t', X)),
    ([(C('t', X), OR(gc('p', X), gc('q', X)))], C('t', X)),
    ([(C('t', X, Y), AND(gc('r', X, Y), gc('p', Y)))], C('t', X, Y)),
    ([(C('t', X), gc('member', X, L(A('a'), A('b'), A('c'))))], C('t', X)),
    ([(C('t', X), AND(gc('p', X), NOT(gc('q', X))))], C('t', X)),
    ([(C('t', X), NOT(gc('q', A('zz'))))], C('t', A('k'))),
    ([(C('t', X), AND(gc('p', X), gb('!'), gc('q', Y)))], C('t', X)),
    ([(C('t', X), AND(gc('n', Y), U(X, F('add', Y, I(1)))))], C('t', X)),
    ([(C('t', X), gc('len', L(A('a'), A('b')), X))], C('t', X)),
    ([(C('t', X), gc('s'))], C('t', A('b'))),
    ([(C('t', X), gc('nosuch', X))], C('t', X)),
    ([(C('t', X), AND(gc('q', X), gc('p', X))), (C('t', A('z')), None)], C('t', X)),
    ([(C('t', X), gc('app', X, Y, L(A('a'), A('b'))))], C('t', X)),
]
MORE = [
    ([(C('t', X, Y), AND(gc('p', X), gc('q', Y)))], C('t', X, Y)),
    ([(C('t', X), AND(gc('member', X, L(I(1), I(2), I(3), I(4))), gb('greater_than', X, I(2))))], C('t', X)),
    ([(C('t', X), gc('len', L(A('a'), A('b'), A('c'), A('d')), X))], C('t', X)),
    ([(C('t', X, Y), gc('app', X, Y, L(A('a'), A('b'), A('c'))))], C('t', X, Y)),
]


def cases(tier, seed):
    out = []
    progs = PROGS if tier == 'quick' else PROGS + MORE
    for i, (cl, q) in enumerate(progs):
        for drvk in ('solve_all', 'solve'):
            for pre in ('', 'expire-after-build', 'expire-before-build'):
                if pre and tier == 'quick' and i % 2: continue
                out.append({'id': 'program %d %s via %s%s' % (i, P.ctext(cl[0]), drvk, ' [%s]' % pre if pre else ''), 'clauses': PC.jsonable(tuple(cl)), 'query': PC.jsonable(q),
                            'driver': drvk, 'dense': 40, 'pre': pre})
    return out


def fmt_answer(qv, ans):
    """format_solution as documented: `$Var = value` for the query's variable arguments in argument order"""
    parts = []
    for i, t in enumerate(qv[1][1][1:], start=1):
        if t[0] == 'var': parts.append('%s = %s' % (t[2], disp(ans[1][i])))
    return ', '.join(parts)


def run(drv, case):
    m = drv.m
    cs = {'clauses': PC.untuple(case['clauses']), 'query': PC.untuple(case['query'])}
    clauses, query = PC.program(m, cs)
    desc = case['id']
    try:
        ref = P.ref_search(m, clauses, query, 10)
    except S.Outside:
        return {'tags': ['outside-claim'], 'nontrivial': False}
    if not ref[2]: return {'tags': ['more-than-10-answers'], 'nontrivial': False}
    kb = P.build_kb(drv, clauses)
    # a run without the timer firing: the query's real answer strings, and the number of observations of the flag
    q0 = drv.query([drv.term(t) for t in query[1]])
    n0 = drv.base(q0, kb)
    obs0 = m.obs_count
    try:
        full = drv.solve_all(n0)
    except ScenarioEnd as e:
        raise Violation('solve_all-%s' % e.why[0], '%s: %s' % (desc, e.why[1][:200]))
    nobs = m.obs_count - obs0
    tags = [case['driver']]
    if full and full[-1] == TIMEOUT_MSG:
        raise Violation('timeout-without-firing', '%s: the timer never fired but solve_all reports a timeout: %r' % (desc, full))
    # the no-fire answers must be the reference answers (same count; terms are compared by C01, here the count and the text form)
    if len(full) != len(ref[0]):
        raise Violation('wrong-answers-without-timeout', '%s: solve_all returns %d answers, the query has %d' % (desc, len(full), len(ref[0])))
    # "finishes well within the limit is never reported as timed out" also covers the next query: a timer that this
    # finished run left running (not cancelled) may fire during it
    leaked = m.timer is not None and m.timer.get('armed')
    # choose the firing point: any observation of the run, or never
    dense = case.get('dense', 40)
    points = list(range(min(nobs, dense))) + list(range(dense, nobs, 3)) + [-1]
    k = m.choose(len(points))
    n = points[k]
    pre = case.get('pre', '')
    # another search exceeded its limit (its timer thread really fired) before / after this query was built
    if pre == 'expire-before-build': drv.expire(); tags.append('after-a-real-timeout')
    q = drv.query([drv.term(t) for t in query[1]])
    node = drv.base(q, kb)
    if pre == 'expire-after-build': drv.expire(); tags.append('after-a-real-timeout'); tags.append('built-before-the-timeout')
    if leaked and n < 0:
        # this query's own timer never fires, but the one left over from the previous (finished) query does
        drv.stop_at(1)
        tags.append('leaked-timer-fires')
    else:
        drv.stop_at(n)
    fired = n >= 0
    try:
        if case['driver'] == 'solve_all':
            got = drv.solve_all(node)
            drv.stop_at(-1)
            if fired:
                if not got or got[-1] != TIMEOUT_MSG:
                    raise Violation('fired-but-no-timeout-message', '%s: the flag was raised at observation %d of %d but solve_all returns %r' % (desc, n, nobs, got))
                body = got[:-1]
            else:
                body = got
                if got and got[-1] == TIMEOUT_MSG:
                    raise Violation('timeout-without-firing', '%s: never fired, yet %r' % (desc, got))
            if body != full[:len(body)]:
                raise Violation('not-a-prefix', '%s: with the flag raised at observation %d, solve_all returns %r; the query\'s answers are %r' % (desc, n, got, full))
            if not fired and body != full:
                raise Violation('incomplete-without-timeout', '%s: never fired, yet %r instead of %r' % (desc, got, full))
            if fired and len(body) < len(full): tags.append('prefix-shorter-than-all')
        else:
            seq = []
            for i in range(len(full) + 2):
                s = drv.solve(node)
                seq.append(s)
                if s == TIMEOUT_MSG or s == 'No more.': break
            drv.stop_at(-1)
            want = full + ['No more.']
            for i, s in enumerate(seq):
                if s == TIMEOUT_MSG:
                    if not fired:
                        raise Violation('timeout-without-firing', '%s: never fired, yet solve returns the timeout text' % desc)
                    break
                if i >= len(want) or s != want[i]:
                    raise Violation('solve-wrong-answer', '%s: call %d of solve returns %r; the answer sequence is %r (flag raised at observation %s)' % (desc, i + 1, s, want, n))
            if not fired and seq != want:
                raise Violation('incomplete-without-timeout', '%s: never fired, yet solve gives %r instead of %r' % (desc, seq, want))
        # a driver call that has returned must not leave its timer running: it would fire during a later query that finishes well
        # within its own limit.  If one is still armed, let it fire during a fresh run of the same query.
        if m.timer is not None and m.timer.get('armed'):
            tags.append('timer-left-running-by-a-finished-call')
            q2 = drv.query([drv.term(t) for t in query[1]])
            node2 = drv.base(q2, kb)
            drv.stop_at(1)
            again = drv.solve_all(node2)
            drv.stop_at(-1)
            if again != full:
                raise Violation('leaked-timer', '%s: a driver call returned with its timer still running; when that timer fires during the next query, solve_all returns %r instead of %r' % (desc, again, full))
    except ScenarioEnd as e:
        raise Violation('driver-%s' % e.why[0], '%s: %s' % (desc, e.why[1][:200]))
    tags.append('timer-never-fires' if not fired else ('timer-fires-at-first-observation' if n == 0 else 'timer-fires-mid-search'))
    return {'tags': tags, 'note': '%s, flag raised at observation %s of %d' % (desc, n, nobs), 'hooks': True}
