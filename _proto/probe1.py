import sys, time
sys.path.insert(0, '.')
import mirsym
from mirsym import *
from models import *

def atom(s): return Agg('Unifiable','Atom',2,[RStr(s)])
def sint(i): return Agg('Unifiable','SInteger',4,[i])
def sflt(f): return Agg('Unifiable','SFloat',3,[f])
def var(i,n): return Agg('Unifiable','LogicVar',5,[i,RStr(n)])
def anon(): return Agg('Unifiable','Anonymous',1,[])
def nil(): return Agg('Unifiable','Nil',0,[])
def cmplx(*ts): return Agg('Unifiable','SComplex',6,[VecV([Cell(t) for t in ts])])
def node(t,n,c,tv): return Agg('Unifiable','SLinkedList',7,[Ptr(Cell(t),'box'),Ptr(Cell(n),'box'),c,tv])
def empty_ss(): return RcV(Cell(VecV()))

t0=time.time()
m = Machine(open('/tmp/mirprobe/suiron0.mir').read(), '/repo/src')
print('loaded', time.time()-t0)
UNIFY='unifiable::<impl at src/unifiable.rs:71:1: 71:15>::unify'
def show(m, v):
    return ''.join(render_display(m, v))

l = cmplx(atom('f'), var(1,'$X'), atom('a'))
r = cmplx(atom('f'), atom('b'), var(2,'$Y'))
ss = empty_ss()
t0=time.time()
res = m.call(m.funcs[UNIFY], [Ptr(Cell(l)), Ptr(Cell(r)), Ptr(Cell(ss))])
print(res, m.steps, time.time()-t0)

def unify(m,a,b,ss):
    return m.call(m.funcs[UNIFY], [Ptr(Cell(a)), Ptr(Cell(b)), Ptr(Cell(ss))])

# (1) $X = $_
res = unify(m, var(1,'$X'), anon(), empty_ss()); print('X=$_ ->', res)
# (2) aliasing cycle
ss1 = unify(m, var(1,'$X'), var(2,'$Y'), empty_ss()).fields[0].v
print('X=Y ->', ss1)
ss2 = unify(m, var(2,'$Y'), var(1,'$X'), ss1); print('then Y=X ->', ss2)
# (3) symbolic ints, explore
def h(m):
    i = m.fresh('i','i64'); j = m.fresh('j','i64')
    k = m.choose(2)
    a = sint(i) if k==0 else var(1,'$X')
    r = unify(m, a, sint(j), empty_ss())
    mod = m.model()
    return (k, r.variant, mod.eval(i.e, model_completion=True), mod.eval(j.e, model_completion=True))
t0=time.time()
for d,r in m.explore(h): print(d, r)
print(time.time()-t0, m.stats)
