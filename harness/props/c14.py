"""C14 - comparison predicates follow numeric and lexicographic order."""
import z3
from mirsym.machine import Sym
from ..engine import Violation
from .. import refunify as R
from . import bip_common as B
from .unify_common import struct_eq

ANCHORS = ['parse_subgoal', 'bip_equal', 'bip_less_than', 'bip_greater_than', 'get_two_constants', 'get_constant']
WITNESSES = {'all': ['succeeds', 'fails', 'int-int', 'float-float', 'float-int', 'atom-atom', 'non-constant', 'through-chain', 'from-source-text']}
OPTS = {'quick': {'selfcheck_mod': 40, 'budget_s': 240}, 'thorough': {'selfcheck_mod': 300, 'budget_s': 1800}}
BOUNDS = {
    'quick': '5 predicates x 1 300 concrete boundary pairs (integers 0, +-1, 2^53, 2^53+1, i64::MAX, i64::MIN against floats 0.0, -0.0, 2^53, 2^53+2, 2^63, 1e19, infinities, NaN, both orders, and integer pairs); '
             '5 predicates x ordered operand pairs over: symbolic i64 (all values), symbolic f64 (all values incl. NaN, infinities, -0.0), atoms of 0-2 symbolic '
             'characters (code points 0x20..0x7ff), each given literally or through a chain of 1-2 bound variables; unbound variable, complex term, list, `$_`; '
             'each goal is asked twice (at most one answer) and the substitution set is compared before/after; '
             'operands written literally in source text (11 literals: signed and unsigned integers, floats, atoms): a third of the pairs in the forms `pred(A, B)`, `pred(A,B)` and `A op B` through parse_subgoal',
    'thorough': 'same, atoms up to 3 characters, chains up to 3 variables, and the infix forms parsed by parse_subgoal',
}
OUTSIDE = 'atoms longer than 3 characters or with code points above 0x7ff'
ASSUMPTIONS = ['comparisons involving NaN follow IEEE 754 (every ordered comparison and == is false), which is what "numerically" means for f64']

PREDS = ['equal', 'less_than', 'less_than_or_equal', 'greater_than', 'greater_than_or_equal']
INFIX = {'equal': '==', 'less_than': '<', 'less_than_or_equal': '<=', 'greater_than': '>', 'greater_than_or_equal': '>='}


def operand_forms(tier):
    ch = [0, 1, 2] if tier == 'quick' else [0, 1, 2, 3]
    out = [('int', c) for c in ch] + [('float', c) for c in ch]
    for n in ([0, 1, 2] if tier == 'quick' else [0, 1, 2, 3]):
        out += [('atom%d' % n, c) for c in ch[:2]]
    out += [('unbound', 0), ('cplx', 0), ('cplx', 1), ('list', 0), ('list', 1), ('anon', 0)]
    return out


INTS = [0, 1, -1, 3, 2 ** 53, 2 ** 53 + 1, -(2 ** 53) - 1, 2 ** 63 - 1, -(2 ** 63)]
FLOATS = [0.0, -0.0, 0.5, 3.0, 9007199254740992.0, 9007199254740994.0, 9.223372036854775807e18, 1e19, -1e19, float('inf'), float('-inf'), float('nan')]


LITERALS = [('5', ('int', 5)), ('-5', ('int', -5)), ('+7', ('int', 7)), ('0', ('int', 0)), ('3.5', ('float', 3.5)), ('-0.25', ('float', -0.25)), ('5.0', ('float', 5.0)),
            ('abc', ('atom', 'abc')), ('New York', ('atom', 'New York')), ('ab', ('atom', 'ab')), ('-12', ('int', -12))]


def cases(tier, seed):
    out = []
    # boundary values, concretely (no solver needed): integers around 2^53 and at the ends of i64 against the floats next to them
    for p in PREDS:
        for i in INTS:
            for fi, f in enumerate(FLOATS):
                out.append({'id': '%s(%d, %r)' % (p, i, f), 'pred': p, 'fam': 'values', 'i': i, 'f': fi, 'order': 0})
                out.append({'id': '%s(%r, %d)' % (p, f, i), 'pred': p, 'fam': 'values', 'i': i, 'f': fi, 'order': 1})
        for i in INTS:
            for j in INTS[4:]:
                out.append({'id': '%s(%d, %d)' % (p, i, j), 'pred': p, 'fam': 'values', 'i': i, 'j': j, 'order': 0})
    # the operands given literally in source text: named form with and without a space after the comma, and the infix form
    for p in PREDS:
        for li, (lt, _) in enumerate(LITERALS):
            for ri, (rt, _) in enumerate(LITERALS):
                if (li + 2 * ri + len(p)) % 3 and tier == 'quick': continue
                for style in ('named', 'tight', 'infix'):
                    out.append({'id': 'text %s %s(%s, %s)' % (style, p, lt, rt), 'pred': p, 'fam': 'text', 'l': li, 'r': ri, 'style': style})
    forms = operand_forms(tier)
    for p in PREDS:
        for l in forms:
            for r in forms:
                out.append({'id': '%s(%s/%d, %s/%d)' % (p, l[0], l[1], r[0], r[1]), 'pred': p, 'L': list(l), 'R': list(r)})
    return out


def make_operand(m, env, form, name):
    kind, chain = form
    if kind == 'int': v = B.sym_int(m, name)
    elif kind == 'float': v = B.sym_float(m, name)
    elif kind.startswith('atom'): v = B.sym_atom(m, name, int(kind[4:]))
    elif kind == 'unbound': return env.var(), None
    elif kind == 'cplx': v = ('cplx', (('atom', 'f'), ('atom', 'a')))
    elif kind == 'list': v = ('plist', (('atom', 'a'),), None)
    elif kind == 'anon': return ('anon',), None
    return env.via_chain(v, chain), v


def to_f(x):
    if isinstance(x, Sym): return Sym(z3.fpSignedToFP(z3.RNE(), x.e, z3.Float64()), 'f64')
    return float(x)


def expected(m, pred, a, b):
    """the statement: numbers numerically (int vs float: the int is converted), atoms by string order, everything else fails"""
    if a is None or b is None: return False
    ka, kb = a[0], b[0]
    op = {'equal': 'Eq', 'less_than': 'Lt', 'less_than_or_equal': 'Le', 'greater_than': 'Gt', 'greater_than_or_equal': 'Ge'}[pred]
    if ka == 'int' and kb == 'int': return m.branch(m.binop(op, a[1], b[1]))
    if ka in ('int', 'float') and kb in ('int', 'float'):
        x = a[1] if ka == 'float' else to_f(a[1])
        y = b[1] if kb == 'float' else to_f(b[1])
        return m.branch(m.binop(op, x, y))
    if ka == 'atom' and kb == 'atom':
        c = str_order(m, list(a[1]), list(b[1]))
        return {'Eq': c == 0, 'Lt': c < 0, 'Le': c <= 0, 'Gt': c > 0, 'Ge': c >= 0}[op]
    return False


def str_order(m, x, y):
    for p, q in zip(x, y):
        if m.branch(m.binop('Lt', p, q)): return -1
        if m.branch(m.binop('Gt', p, q)): return 1
    return (len(x) > len(y)) - (len(x) < len(y))


def run_values(drv, case):
    m = drv.m
    env = B.Env(drv)
    kb = drv.kb([])
    a = ('int', case['i'])
    b = ('int', case['j']) if 'j' in case else ('float', FLOATS[case['f']])
    if case['order']: a, b = b, a
    r1, r2 = B.run_goal(drv, kb, ('gb', case['pred'], (a, b)), env.ss)
    want = expected(m, case['pred'], a, b)
    if (r1.h is not None) != want:
        raise Violation('wrong-outcome:%s:%s~%s' % (case['pred'], a[0], b[0]), '%s: the goal %s but the operands %s compare that way' % (
            case['id'], 'succeeds' if r1.h is not None else 'fails', 'do' if want else 'do not'))
    if r2.h is not None: raise Violation('more-than-once:%s' % case['pred'], case['id'] + ': a second answer was produced')
    return {'tags': ['succeeds' if want else 'fails', 'boundary-values'], 'note': case['id']}


def run_text(drv, case):
    m = drv.m
    (lt, lv), (rt, rv) = LITERALS[case['l']], LITERALS[case['r']]
    p = case['pred']
    text = {'named': '%s(%s, %s)' % (p, lt, rt), 'tight': '%s(%s,%s)' % (p, lt, rt), 'infix': '%s %s %s' % (lt, INFIX[p], rt)}[case['style']]
    g, res = drv.parse('subgoal', text)
    if res[0] != 'ok': raise Violation('text-rejected:' + case['style'], 'parse_subgoal rejects %r' % text)
    env = B.Env(drv)
    kb = drv.kb([])
    node = drv.node(g, kb, env.ss)
    r1, r2 = drv.next(node), drv.next(node)
    want = expected(m, p, lv, rv)
    if (r1.h is not None) != want:
        raise Violation('wrong-outcome-from-text:%s:%s' % (p, case['style']), 'the goal %r %s but %s and %s %s compare that way' % (
            text, 'succeeds' if r1.h is not None else 'fails', R.show(lv), R.show(rv), 'do' if want else 'do not'))
    if r2.h is not None: raise Violation('more-than-once:%s' % p, '%r: a second answer was produced' % text)
    return {'tags': ['succeeds' if want else 'fails', 'from-source-text'], 'note': text}


def run(drv, case):
    if case.get('fam') == 'values': return run_values(drv, case)
    if case.get('fam') == 'text': return run_text(drv, case)
    m = drv.m
    env = B.Env(drv)
    kb = drv.kb([])
    lt, lv = make_operand(m, env, tuple(case['L']), 'L')
    rt, rv = make_operand(m, env, tuple(case['R']), 'R')
    before = drv.dumpss(env.ss)
    r1, r2 = B.run_goal(drv, kb, ('gb', case['pred'], (lt, rt)), env.ss)
    want = expected(m, case['pred'], lv, rv)
    tags = ['succeeds' if want else 'fails']
    if lv is not None and rv is not None and lv[0] in ('int', 'float', 'atom') and rv[0] in ('int', 'float', 'atom'):
        ks = sorted([lv[0], rv[0]])
        tags.append('-'.join(ks) if ks[0] != ks[1] or True else '')
    if lv is None or rv is None or lv[0] in ('cplx', 'plist') or rv[0] in ('cplx', 'plist'): tags.append('non-constant')
    if case['L'][1] or case['R'][1]: tags.append('through-chain')
    desc = case['id']
    if (r1.h is not None) != want:
        raise Violation('wrong-outcome:%s:%s~%s' % (case['pred'], case['L'][0], case['R'][0]),
                        '%s: the goal %s but the operands %s compare that way' % (desc, 'succeeds' if r1.h is not None else 'fails', 'do' if want else 'do not'))
    if r1.h is not None:
        after = drv.dumpss(r1)
        if not B.unchanged(m, before, after, struct_eq):
            raise Violation('comparison-binds:%s' % case['pred'], desc + ': the substitution set changed')
    if r2.h is not None:
        raise Violation('more-than-once:%s' % case['pred'], desc + ': a second answer was produced')
    return {'tags': tags, 'note': desc}
