"""C01 - answers equal depth-first SLD resolution, in order."""
from ..engine import Violation
from .. import progs as P
from .. import refunify as R
from .. import refsld as S
from ..progs import V, A, C, L, I, gc, gb, AND, OR, NOT, U, F, X, Y, Z
from . import prog_common as PC

ANCHORS = PC.ANCHORS + ['replace_variables', 'format_solution', 'solve_all']
WITNESSES = {'all': ['has-answers', 'several-answers', 'no-answer', 'recursive', 'solve_all-checked', 'from-source-text']}
OPTS = {'quick': {'selfcheck_mod': 150, 'budget_s': 280}, 'thorough': {'selfcheck_mod': 1500, 'budget_s': 3000}}
STEP_LIMIT = 1_500_000
BOUNDS = {
    'quick': 'knowledge base = 21 fixed clauses (facts p/1 q/1 r/2 s/0 n/1 l/1 with two symbolic integers among the data; member/2, len/2, app/3, eq/2) plus one rule t($X) :- BODY and '
             'optionally the fact t(z); BODY = every conjunction / disjunction / mixed shape of up to 3 goals (6 shapes) over a 7-goal menu (calls p q r, `=` with an atom and between variables, `<`) and all shapes of up to 2 goals over 14 goals (adds arithmetic `$Y = $X + 1`, facts with variables inside box(..) and list patterns, list patterns with a tail variable against closed lists, a fact `u($_)` followed by `u(5)`, facts made of `$_` only, stored lists whose last element is a list, duplicate facts, a fact followed by a rule for the same goal, eq($Y, 7), a 3-ary fact); 108 four-goal bodies `(G1 ; G2, G3), G4` in which the body-local variables first occur in a different order in each alternative; queries t($X) and t(b), and 16 queries asked directly of the base predicates with a variable in several argument positions, `$_`, list and compound arguments; up to 8 answers compared one by one (resolved query term up to renaming of unbound variables), then exhaustion; '
             'solve_all strings for a subset; the same programs from source text through parse_rule for 2-goal bodies',
    'thorough': 'all 6 shapes of up to 3 goals over an 18-goal menu (adds member, len, app, arithmetic and the facts with inner variables), queries also t($_) and a two-variable wrapper, source-text family for all shapes',
}
OUTSIDE = 'programs whose reference search exceeds 4000 resolution steps, needs an occurs check, or runs a built-in outside its documented domain (arithmetic on unbound or non-numeric operands, overflow); time(...); more than 8 answers'
ASSUMPTIONS = ['symbolic integers in the data stand for every pair of i64 values: each comparison/equality on them is decided by the solver and forks when both outcomes are possible']

MENU_Q = [gc('p', X), gc('q', X), gc('r', X, Y), gc('q', Y), U(X, A('b')), U(Y, X), gc('n', X), gb('less_than', X, I(3)),
          U(Y, F('add', X, I(1))), gc('member', X, L(A('c'), A('a')))]
MENU_T = MENU_Q + [gc('len', L(A('a'), X), Y), gc('app', L(X), L(A('z')), Y), gb('count', L(X, Y), Z), gb('append', X, L(A('z')), Y), gc('eq', X, Y), gb('equal', X, A('a'))]


def cases(tier, seed):
    out = []
    menu = (MENU_Q[:6] + MENU_Q[7:9]) if tier == 'quick' else MENU_T
    extra_menu = [gc('h', X), gc('d', X), gc('d', A('a')), gc('eq', Y, I(7)), gc('pr', X, Y, Z), gc('h', Y), gc('l', L(X, tail=Y)), gc('l', L(Y, X, tail=Z)), gc('u', Y), gb('equal', Y, I(5)), gc('any', Y), gc('any2', X, Y), gc('u', X), gc('nl', X), gc('nl', L(X, Y)), gc('nl', L(Y, tail=X))]
    if tier == 'quick':
        bodies = P.bodies(menu[:7], 3) + [b for b in P.bodies(menu + extra_menu, 2) if any(g in extra_menu or g == menu[7] for g in (b[1] if b[0] in ('gand', 'gor') else (b,)))]
    else:
        bodies = P.bodies(menu[:12] + extra_menu, 3)
    for b in bodies:
        for extra in (False, True):
            if extra and b[0] not in ('gor', 'gand'): pass
            cl = [(C('t', X), b)] + ([(C('t', A('z')), None)] if extra else [])
            for q in (C('t', X), C('t', A('b'))):
                if extra and q[1][1][0] != 'var': continue
                out.append({'id': '%s ?- %s|%d' % (' '.join(P.ctext(c) for c in cl), P.ttext(q), len(out)), 'fam': 'values', 'clauses': PC.jsonable(tuple(cl)), 'query': PC.jsonable(q)})
    # variables that are local to the body and first occur in a different order in each alternative of a disjunction, used after it
    W_ = V('W')
    for g1 in (U(Y, I(1)), gc('q', Y)):
        for g2 in (U(Z, I(9)), gc('p', Z)):
            for g3 in (U(Y, I(2)), gc('q', Y), gc('r', Z, Y)):
                for g4 in (U(X, Y), U(X, C('k', Y, Z)), gc('eq', X, Y)):
                    for b in (AND(OR(g1, AND(g2, g3)), g4), AND(OR(AND(g2, g3), g1), g4), AND(gc('p', W_), OR(g1, AND(g2, g3)), g4)):
                        cl = [(C('t', X), b)]
                        out.append({'id': '%s ?- t($X)|%d' % (P.ctext(cl[0]), len(out)), 'fam': 'values', 'clauses': PC.jsonable(tuple(cl)), 'query': PC.jsonable(C('t', X))})
    # queries with a variable in several argument positions, with `$_`, with lists and compound arguments; asked directly of the base predicates
    dbl = [(C('r2', A('a'), A('a')), None), (C('r2', A('a'), A('b')), None), (C('r2', SIv(), ('symint', 'J')), None), (C('r2', X, C('k', X)), None)]
    for q in (C('r2', X, X), C('r2', X, Y), C('r2', ('anon',), X), C('r2', X, C('k', Y)), C('r2', C('k', X), C('k', C('k', X))), C('pr', X, X, Z), C('pr', X, Y, C('k', X, Y)),
              C('app', X, X, L(A('a'), A('a'))), C('app', X, Y, L(A('a'), A('b'))), C('member', X, L(A('a'), X, A('b'))), C('eq', C('k', X, Y), C('k', Y, A('a'))), C('r', X, X),
              C('len', L(X, X), Y), C('h', L(X, tail=X)), C('h', C('box', C('box', X))), C('l', L(X, tail=L(Y)))):
        out.append({'id': 'query %s|%d' % (P.ttext(q), len(out)), 'fam': 'values', 'clauses': PC.jsonable(tuple(dbl)), 'query': PC.jsonable(q)})
    # recursive schemas over finite data
    rec = [(C('t', X), gc('member', X, L(A('a'), SIv(), A('a')))), (C('t', X), gc('len', L(A('a'), A('b'), A('c')), X)),
           (C('t', X), gc('app', X, Y, L(A('a'), A('b')))), (C('t', X), AND(gc('app', Y, L(X), L(A('a'), A('b'), A('c'))))),
           (C('t', X), AND(gc('member', X, L(I(1), I(5), I(7))), gb('greater_than', X, I(2))))]
    for cl in rec:
        out.append({'id': 'recursive %s|%d' % (P.ctext(cl), len(out)), 'fam': 'recursive', 'clauses': PC.jsonable((cl,)), 'query': PC.jsonable(C('t', X))})
    # the same programs from source text (2-goal bodies in quick)
    for b in P.bodies(menu[:7], 2 if tier == 'quick' else 3):
        cl = [(C('t', X), b)]
        out.append({'id': 'text %s|%d' % (P.ctext(cl[0]), len(out)), 'fam': 'text', 'clauses': PC.jsonable(tuple(cl)), 'query': PC.jsonable(C('t', X))})
    return out


def SIv(): return ('symint', 'I')


def run_text(drv, case):
    """the test rule goes through parse_rule; it must behave exactly like the constructed one"""
    m = drv.m
    case2 = dict(case); case2['clauses'] = PC.untuple(case['clauses']); case2['query'] = PC.untuple(case['query'])
    clauses, query = PC.program(m, case2)
    text = P.ctext(case2['clauses'][0])
    desc = 'from text %r ?- %s' % (text, P.ttext(case2['query']))
    try:
        refs = PC.reference(m, clauses, query, 8, PC.MODES)
    except S.Outside as e:
        return {'tags': ['outside-claim'], 'nontrivial': False}
    base = clauses[:-1]
    rules = []
    for head, body in base:
        rules.append(drv.rule(drv.term(head), None if body is None else drv.goal(body)))
    r, res = drv.parse('rule', text)
    if res[0] != 'ok':
        raise Violation('text-rejected', '%s: parse_rule rejects the rule' % desc)
    rules.append(r)
    kb = drv.kb(rules)
    run = P.impl_search(drv, kb, query, 8, 0)
    problem = None
    for mode, ref in refs:
        problem = P.compare_runs(m, run, ref, desc)
        if problem is None: break
    if problem is not None: raise Violation(problem[0] + ':text', problem[1])
    return {'tags': ['from-source-text'] + (['has-answers'] if run.answers else ['no-answer']), 'note': desc}


def run(drv, case):
    if case['fam'] == 'text': return run_text(drv, case)
    run, ref, tags, desc = PC.run_and_compare(drv, case)
    if run is None: return {'tags': tags, 'nontrivial': False}
    if case['fam'] == 'recursive': tags.append('recursive')
    # solve_all: the same answers, each as "$Var = value" for the query's variables in argument order
    if len(run.answers) <= 8 and run.exhausted and not any(run.outs):
        m = drv.m
        clauses, query = PC.program(m, {'clauses': PC.untuple(case['clauses']), 'query': PC.untuple(case['query'])})
        kb = P.build_kb(drv, clauses)
        q = drv.query([drv.term(t) for t in query[1]])
        node = drv.base(q, kb)
        strs = drv.solve_all(node)
        qv = drv.dump(q)
        want = []
        from ..heap import Heap
        for ans in run.answers:
            parts = []
            for i, t in enumerate(qv[1][1][1:], start=1):
                if t[0] == 'var':
                    try: parts.append('%s = %s' % (t[2], disp(ans[1][i])))
                    except S.Outside: parts = None; break
            if parts is None: want = None; break
            want.append(', '.join(parts))
        if want is not None:
            if strs != want:
                raise Violation('solve_all-strings', '%s: solve_all returns %r, expected %r' % (desc, strs, want))
            tags.append('solve_all-checked')
    return {'tags': tags, 'note': desc}


def disp(t):
    """Display text of a raw resolved term as documented: variables print as name_id, a list prints its elements
    separated by ", " and " | " before a tail; a bound tail prints as the nested list it holds ([a | [b]]), which
    denotes the same list"""
    k = t[0]
    if k == 'var': return '%s_%d' % (t[2], t[1]) if t[1] else t[2]
    if k == 'node':
        out, cur, first = '[', t, True
        while cur[0] == 'node' and cur[1][0] != 'nil':
            if not first: out += ' | ' if cur[4] else ', '
            first = False
            out += disp(cur[1])
            cur = cur[2]
        return out + ']'
    if k == 'cplx': return disp(t[1][0]) + '(' + ', '.join(disp(x) for x in t[1][1:]) + ')'
    return S.display(t)
