"""C13 - a function term is evaluated whichever side of `=` it is on."""
import z3
from mirsym.machine import Sym, PathInfeasible
from ..engine import Violation
from ..driver import ScenarioEnd
from .. import refunify as R
from . import bip_common as B
from .unify_common import struct_eq
from . import c12

ANCHORS = ['>::unify', 'unify_sfunction', 'evaluate_join', 'evaluate_add']
WITNESSES = {'all': ['function-left', 'function-right', 'partner-function', 'partner-variable', 'partner-constant', 'succeeds', 'fails', 'join']}
OPTS = {'quick': {'selfcheck_mod': 20, 'budget_s': 240}, 'thorough': {'selfcheck_mod': 100, 'budget_s': 1800}}
STEP_LIMIT = 300_000
BOUNDS = {
    'quick': 'function terms add/subtract/multiply/divide over (symbolic i64, 3), (2.5, 4), (7, 2), (0.1, 0.2), (0.5, 0.25), (symbolic f64 in [-1e6, 1e6], 0.25) and join(a, b), join([a, b], "!") paired with: '
             'unbound variable, variable bound to the value / to another value, equal constant, different constant of the same type (a solver variable: any other i64 / any other f64, however close), atom, complex term, list, `$_`, '
             'a second function term of equal value and one of different value; the numerically equal value of the other numeric type (3 against 3.0) as a constant and as a second function; the unbound partner has a lower id than variables that are already bound; the arguments are also given through chains of two bound variables; unify(F, T) and unify(T, F) through Unifiable::unify and through the `unify` built-in goal; '
             'oracle: the real unify on (value of F, T with its own function evaluated)',
    'thorough': 'same plus 3-argument functions and partners reached through chains of 2 variables',
}
OUTSIDE = 'functions whose evaluation panics (unbound or non-numeric arguments, overflow); NaN values'
ASSUMPTIONS = ['the value of a function term is what the crate\'s own evaluate_* returns (C12 judges the values); constant-vs-term unification is judged by C06']

FUNCS = [
    ('add', [('sym',), ('k', 3)]), ('subtract', [('sym',), ('k', 3)]), ('multiply', [('k', 7), ('k', 2)]), ('divide', [('k', 7), ('k', 2)]),
    ('add', [('r', 2.5), ('k', 4)]), ('divide', [('r', 7.0), ('k', 2)]), ('multiply', [('r', 0.5), ('r', 4.0)]),
    ('join', [('q', 'a'), ('q', 'b')]), ('join', [('lst', ('a', 'b')), ('q', '!')]),
    ('add', [('r', 0.1), ('r', 0.2)]), ('multiply', [('r', 0.5), ('r', 0.25)]), ('subtract', [('symf',), ('r', 0.25)]),
]
PARTNERS = ['unbound', 'bound-equal', 'bound-different', 'equal', 'different', 'atom', 'cplx', 'list', 'anon', 'func-equal', 'func-different', 'func-other-type', 'other-type']


def cases(tier, seed):
    out = []
    for fi, (name, args) in enumerate(FUNCS):
        for p in PARTNERS:
            for via in ('method', 'goal'):
                out.append({'id': '%s#%d vs %s via %s' % (name, fi, p, via), 'f': fi, 'partner': p, 'via': via})
        # the function's arguments reached through a chain of two bound variables
        for p in ('unbound', 'equal', 'different', 'bound-equal'):
            out.append({'id': '%s#%d (arguments through variable chains) vs %s via method' % (name, fi, p), 'f': fi, 'partner': p, 'via': 'method', 'argchain': 2})
    return out


def mk(m, a, nm):
    if a[0] == 'sym': return B.sym_int(m, nm)
    if a[0] == 'symf':
        v = B.sym_float(m, nm, nan_ok=False)
        if isinstance(v[1], Sym):
            m.assume(Sym(z3.And(z3.fpLEQ(v[1].e, z3.FPVal(1e6, z3.Float64())), z3.fpGEQ(v[1].e, z3.FPVal(-1e6, z3.Float64()))), 'bool'))
        return v
    if a[0] == 'k': return ('int', a[1])
    if a[0] == 'r': return ('float', a[1])
    if a[0] == 'q': return ('atom', a[1])
    if a[0] == 'lst': return ('plist', tuple(('atom', x) for x in a[1]), None)


def run(drv, case):
    m = drv.m
    name, argspec = FUNCS[case['f']]
    env = B.Env(drv)
    x = env.var('$X')                      # id 1: stays unbound (unless the partner binds it) while higher ids get bound
    hi = env.var('$Hi'); env.bind(hi, ('atom', 'kept'))
    args = [mk(m, a, 'f%d' % i) for i, a in enumerate(argspec)]
    if name in ('add', 'subtract') and isinstance(args[0][1], Sym):
        # keep clear of overflow (outside the claim)
        m.assume(Sym(z3.And(args[0][1].e > -(1 << 62), args[0][1].e < (1 << 62)), 'bool'))
    if case.get('argchain'):
        args = [env.via_chain(a, 2) if a[0] in ('int', 'float', 'atom') else a for a in args]
    F = ('func', name, tuple(args))
    tF = drv.term(F)
    val = drv.evalf(name, [drv.term(a) for a in args], env.ss)
    p = case['partner']
    tags = ['join'] if name == 'join' else []
    def different(v):
        if v[0] == 'int':
            d = B.sym_int(m, 'd')
            if R.eq(m, d[1], v[1]): raise PathInfeasible()
            return d
        if v[0] == 'float':
            # any other float, however close: a solver variable constrained only to differ from the value
            d = B.sym_float(m, 'df', nan_ok=False)
            if R.eq(m, d[1], v[1]): raise PathInfeasible()
            return d
        return ('atom', v[1] + 'x')
    Tprime = None
    if p == 'unbound': T = x; tags.append('partner-variable')
    elif p == 'bound-equal': env.bind(x, val); T = x; tags.append('partner-variable')
    elif p == 'bound-different': env.bind(x, different(val)); T = x; tags.append('partner-variable')
    elif p == 'equal': T = val; tags.append('partner-constant')
    elif p == 'different': T = different(val); tags.append('partner-constant')
    elif p == 'atom': T = ('atom', 'zz'); tags.append('partner-constant')
    elif p == 'cplx': T = ('cplx', (('atom', 'f'), ('atom', 'a')))
    elif p == 'list': T = ('plist', (('atom', 'a'),), None)
    elif p == 'anon': T = ('anon',)
    elif p in ('func-other-type', 'other-type'):
        # the numerically equal value of the other numeric type (3 against 3.0), as a constant and as the value of a second function
        if val[0] == 'int':
            from ..refsld import to_f
            o = ('float', to_f(val[1]) if isinstance(val[1], Sym) else float(val[1])); zero = ('float', 0.0)
        elif val[0] == 'float' and not isinstance(val[1], Sym) and val[1] == int(val[1]):
            o = ('int', int(val[1])); zero = ('int', 0)
        else:
            return {'tags': ['no-counterpart-of-the-other-type'], 'nontrivial': False}
        if p == 'other-type': T = o; tags.append('partner-constant')
        else: T = ('func', 'add', (o, zero)); Tprime = o; tags.append('partner-function')
    else:
        tags.append('partner-function')
        if val[0] in ('int', 'float'):
            zero = ('int', 0) if val[0] == 'int' else ('float', 0.0)
            T = ('func', 'add', (val, zero)) if p == 'func-equal' else ('func', 'add', (different(val), zero))
            Tprime = val if p == 'func-equal' else T[2][0]
        else:
            T = ('func', 'join', (val,)) if p == 'func-equal' else ('func', 'join', (different(val),))
            Tprime = val if p == 'func-equal' else T[2][0]
    if Tprime is None: Tprime = T
    tT, tV, tTp = drv.term(T), drv.term(val), drv.term(Tprime)
    ref = drv.unify(tV, tTp, env.ss)
    outs = []
    if case['via'] == 'method':
        outs.append(('function-left', drv.unify(tF, tT, env.ss)))
        outs.append(('function-right', drv.unify(tT, tF, env.ss)))
    else:
        kb = drv.kb([])
        for tag, (l, r) in (('function-left', (F, T)), ('function-right', (T, F))):
            r1, r2 = B.run_goal(drv, kb, ('gb', 'unify', (l, r)), env.ss)
            if r2.h is not None: raise Violation('more-than-once:unify', case['id'] + ': a second answer was produced')
            outs.append((tag, r1))
    want = drv.dumpss(ref) if ref.h is not None else None
    tags.append('succeeds' if ref.h is not None else 'fails')
    for tag, r in outs:
        tags.append(tag)
        if (r.h is None) != (ref.h is None):
            raise Violation('%s:%s' % (tag, p), '%s: with the %s the unification %s, but unifying the value with the other term %s' % (
                case['id'], tag.replace('-', ' on the '), 'fails' if r.h is None else 'succeeds', 'fails' if ref.h is None else 'succeeds'))
        if r.h is not None:
            got = drv.dumpss(r)
            if not B.unchanged(m, want, got, struct_eq):
                raise Violation('%s-bindings:%s' % (tag, p), '%s: bindings differ from those of unifying the value: %s vs %s' % (
                    case['id'], [R.show(e) if e else '-' for e in got], [R.show(e) if e else '-' for e in want]))
    return {'tags': tags, 'note': case['id']}
