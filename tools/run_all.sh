#!/bin/bash
# runs every registered check (default tier quick) on /repo's current tree and prints one line each
cd "$(dirname "$0")/.."
git -C /repo diff --quiet || { echo "WARNING: /repo has uncommitted changes"; }
for p in $(python3 -c "import json; print(' '.join(c['property_id'] for c in json.load(open('MANIFEST.json'))['checks']))"); do
  out=$(timeout 3600 ./check $p --tier ${TIER:-quick} 2>&1); rc=$?
  echo "rc=$rc $(echo "$out" | tail -1 | cut -c1-170)"
  [ $rc -ne 0 ] && echo "$out" | grep -E "^VIOL|^  |^INCON" | cut -c1-300 | head -5
done
