import sys, time
sys.path.insert(0, '.')
from mirsym import *
from models import *
from probe1 import atom,sint,sflt,var,anon,nil,cmplx,node,empty_ss
m = Machine(open('/tmp/mirprobe/suiron0.mir').read(), '/repo/src')
def h(op, kinds, bound):
    def hh(m):
        args=[]; syms=[]
        for i,k in enumerate(kinds):
            if k=='i':
                s=m.fresh(f'a{i}','i64'); 
                if bound: m.pc.append(z3.And(s.e > -bound, s.e < bound))
                args.append(sint(s))
            else:
                s=m.fresh(f'a{i}','f64'); m.pc.append(z3.Not(z3.fpIsNaN(s.e))); args.append(sflt(s))
            syms.append(s)
        try:
            r = m.call('built_in_arithmetic::evaluate_'+op, [Ptr(Cell(VecV([Cell(a) for a in args]))), Ptr(Cell(empty_ss()))])
        except RustPanic as e:
            return 'panic:'+str(e)[:40]
        return (r.variant, str(z3.simplify(r.fields[0].v.e))[:80])
    return hh
for op,kinds,bound in [('add','ii',0),('subtract','iii',0),('multiply','ii',1<<31),('divide','ii',0),('add','if',0),('divide','fi',0),('multiply','ff',0)]:
    t0=time.time(); m.stats={'solver_calls':0,'forks':0}
    res=m.explore(h(op,kinds,bound))
    print(op,kinds,[r for d,r in res], round(time.time()-t0,2), m.stats)
