"""The bounded term universe U (DESIGN §3): shapes are enumerated, scalar leaves are symbolic.

A shape is a JSON-able tree:
  ["a"] atom `a`      ["b"] atom `b`       ["s"] atom of one symbolic letter
  ["i"] symbolic i64  ["x"] symbolic f64 (not NaN)   ["k", n] the integer n   ["q", "name"] atom name
  ["v", n] variable $Vn with id n          ["_"] anonymous variable
  ["f", t...] complex term f(t...)         ["g", t...] complex term g(t...)
  ["e"] the empty list
  ["l", style, [elems], tail]  list; style "p": the node chain parse_linked_list builds,
                               style "m": make_linked_list(vbar, elems+tail); tail: null | ["v",n] | ["_"]
  ["fn", name, t...]  built-in function term
size(shape) = number of leaf positions (a tail counts as one).
"""
import itertools
import z3
from mirsym.machine import Sym

VAR_NAMES = {1: '$V1', 2: '$V2', 3: '$V3', 4: '$V4', 5: '$V5', 6: '$V6'}


def inst(m, sh, path='t'):
    """shape -> pterm with fresh symbolic leaves named after `path`"""
    k = sh[0]
    if k == 'a': return ('atom', 'a')
    if k == 'b': return ('atom', 'b')
    if k == 'q': return ('atom', sh[1])
    if k == 'k': return ('int', sh[1])
    if k == 'r': return ('float', float(sh[1]))
    if k == 's':
        c = m.fresh(path + '.c', 'char')
        if isinstance(c, Sym):
            m.assume(Sym(z3.And(z3.UGE(c.e, 97), z3.ULE(c.e, 122)), 'bool'))
        return ('atom', (c,) if isinstance(c, Sym) else c)
    if k == 'i': return ('int', m.fresh(path + '.i', 'i64'))
    if k == 'x':
        x = m.fresh(path + '.x', 'f64')
        if isinstance(x, Sym):
            m.assume(Sym(z3.Not(z3.fpIsNaN(x.e)), 'bool'))
        return ('float', x)
    if k == 'v': return ('var', sh[1], VAR_NAMES.get(sh[1], '$V%d' % sh[1]))
    if k == '_': return ('anon',)
    if k in ('f', 'g'):
        return ('cplx', (('atom', k),) + tuple(inst(m, x, '%s.%d' % (path, i)) for i, x in enumerate(sh[1:])))
    if k == 'e': return ('plist', (), None)
    if k == 'l':
        elems = tuple(inst(m, x, '%s.%d' % (path, i)) for i, x in enumerate(sh[2]))
        tail = None if sh[3] is None else inst(m, sh[3], path + '.t')
        if sh[1] == 'p': return ('plist', elems, tail)
        return ('mklist', tail is not None, elems + ((tail,) if tail is not None else ()))
    if k == 'fn':
        return ('func', sh[1], tuple(inst(m, x, '%s.%d' % (path, i)) for i, x in enumerate(sh[2:])))
    raise ValueError('shape %r' % (sh,))


def size(sh):
    k = sh[0]
    if k in ('f', 'g'): return max(1, sum(size(x) for x in sh[1:]))
    if k == 'l': return max(1, sum(size(x) for x in sh[2]) + (1 if sh[3] is not None else 0))
    if k == 'fn': return max(1, sum(size(x) for x in sh[2:]))
    return 1


def kind(sh):
    k = sh[0]
    return {'a': 'atom', 'b': 'atom', 's': 'atom', 'q': 'atom', 'i': 'int', 'k': 'int', 'x': 'float', 'r': 'float',
            'v': 'var', '_': 'anon', 'f': 'cplx', 'g': 'cplx', 'e': 'list', 'l': 'list', 'fn': 'func'}[k]


def has(sh, k):
    if sh[0] == k: return True
    if sh[0] in ('f', 'g'): return any(has(x, k) for x in sh[1:])
    if sh[0] == 'l': return any(has(x, k) for x in sh[2]) or (sh[3] is not None and has(sh[3], k))
    if sh[0] == 'fn': return any(has(x, k) for x in sh[2:])
    return False


def terms(leaves, tails, max_size, depth, styles=('p',), max_list=3):
    """all shapes of nesting depth <= depth and size <= max_size"""
    cur = [list(l) for l in leaves] + [['e']]
    if depth == 0: return cur
    sub = terms(leaves, tails, max_size, depth - 1, styles, max_list)
    by_size = {}
    for t in sub: by_size.setdefault(size(t), []).append(t)
    out = list(cur)
    def combos(n, total):
        """tuples of n sub-shapes with total size <= total"""
        if n == 0:
            yield (); return
        for s, ts in by_size.items():
            if s + (n - 1) > total: continue
            for t in ts:
                for rest in combos(n - 1, total - s):
                    yield (t,) + rest
    for c in combos(1, max_size):
        out.append(['f', *c]); out.append(['g', *c])
    for c in combos(2, max_size):
        out.append(['f', *c])
    for n in range(1, max_list + 1):
        for c in combos(n, max_size):
            for st in styles:
                out.append(['l', st, list(c), None])
        for c in combos(n, max_size - 1):
            for tl in tails:
                for st in styles:
                    out.append(['l', st, list(c), list(tl)])
    # dedupe
    seen, res = set(), []
    for t in out:
        key = repr(t)
        if key not in seen:
            seen.add(key); res.append(t)
    return res


def text(sh):
    k = sh[0]
    if k in ('a', 'b'): return k
    if k == 'q': return sh[1]
    if k == 'k': return str(sh[1])
    if k == 'r': return repr(float(sh[1]))
    if k == 's': return '<atom?>'
    if k == 'i': return '<int?>'
    if k == 'x': return '<float?>'
    if k == 'v': return VAR_NAMES.get(sh[1], '$V%d' % sh[1])
    if k == '_': return '$_'
    if k in ('f', 'g'): return k + '(' + ', '.join(text(x) for x in sh[1:]) + ')'
    if k == 'e': return '[]'
    if k == 'l':
        s = ', '.join(text(x) for x in sh[2])
        if sh[3] is not None: s += ' | ' + text(sh[3])
        return ('[' if sh[1] == 'p' else 'mk[') + s + ']'
    if k == 'fn': return sh[1] + '(' + ', '.join(text(x) for x in sh[2:]) + ')'
    return repr(sh)
