"""C11 - answers do not depend on how program variables are named."""
import z3
from mirsym.machine import Sym
from ..engine import Violation
from ..driver import ScenarioEnd
from .. import progs as P
from .. import refsld as S
from .. import refunify as R
from ..progs import V, A, C, L, I, gc, gb, AND, OR, NOT, U, F, X, Y, Z
from . import prog_common as PC
from . import c01

ANCHORS = PC.ANCHORS + ['recreate_variables']
WITNESSES = {'all': ['has-answers', 'several-answers', 'names-coincide-across-clauses', 'names-all-different', 'writes-output', 'from-source-text']}
OPTS = {'quick': {'selfcheck_mod': 8, 'budget_s': 280, 'max_paths_per_case': 4000}, 'thorough': {'selfcheck_mod': 600, 'budget_s': 3000, 'max_paths_per_case': 20000}}
STEP_LIMIT = 3_000_000
BOUNDS = {
    'quick': '16 hand-written bodies (conjunction, disjunction, not, cut, arithmetic, print of a bound variable, list patterns, helper rules u/2 and w/1 with their own variables) plus the 136 '
             'one- and two-goal bodies of the C01 menu, rule t(V1) :- BODY, queries t(Q) and t(b); every variable of every clause and of the query is named "$" + c (+ a suffix `_1`, `_2`, `2` in a second naming pattern) with c a solver variable over {X, Y, Z, W}, '
             'constrained only to be injective within its clause: the solver enumerates every coincidence pattern of names across clauses and with the query (capture, all-same, all-different); '
             'answers (up to renaming of unbound variables) and output must equal those of the same program with fixed distinct names, run in the same path; the 20 hand-written programs '
             'also go through parse_rule / parse_query as source text under 5 concrete naming schemes (non-ASCII letters, `_1` suffixes, lower case, names that are prefixes of each other, the same names reused in every clause)',
    'thorough': 'all three-goal bodies of the C01 menu as well',
}
OUTSIDE = 'printing unbound variables (their text contains the name); solve_all strings (they show the query\'s own variable names)'
ASSUMPTIONS = ['the per-clause VarMap is the modelled HashMap with symbolic keys: a lookup forks on key equality']

A1, A2, A3, A4, A5, Q1 = V('A1'), V('A2'), V('A3'), V('A4'), V('A5'), V('Q1')   # placeholders: renamed per case

HELP = [(C('u', A3, A4), AND(gc('r', A3, A5), gc('q', A5), U(A4, A5))), (C('w', A3), OR(gc('p', A3), gc('u', A3, A4))),
        (C('tl', L(A3, tail=A4), A4), None), (C('hd', L(A3, tail=A4), A3), gc('p', A3))]
BODIES = [
    AND(gc('p', A1), gc('r', A1, A2)), OR(gc('q', A1), gc('r', A1, A2)), AND(gc('u', A1, A2), gc('p', A1)), AND(gc('r', A1, A2), gc('u', A2, A1)),
    AND(gc('p', A1), NOT(gc('r', A1, A2))), AND(gc('r', A2, A1), gb('!'), gc('p', A1)), AND(gc('n', A2), U(A1, F('add', A2, I(1)))),
    AND(gc('r', A1, A2), gb('print', A2), gb('nl')), AND(gc('w', A1), gc('w', A2), gc('eq', A1, A2)), gc('member', A1, L(A('a'), A2)),
    AND(gc('l', L(A1, tail=A2))), AND(gc('app', A2, L(A1), L(A('a'), A('b')))), OR(AND(gc('p', A1), gc('u', A1, A2)), gc('q', A1)),
    AND(U(A2, L(A1, A('k'))), gc('member', A1, A2), gc('p', A1)), AND(gc('u', A2, A1)), AND(gc('w', A1), NOT(gc('u', A1, A2))),
    AND(gc('tl', L(A('a'), tail=A2), A1)), AND(gc('tl', L(A('a'), A('b'), A('c')), A2), gc('tl', A2, A1)), AND(gc('hd', L(A1, tail=A2), A5), gc('tl', L(A5, tail=A2), L())),
    AND(U(A2, L(A('b'), A('c'))), gc('tl', L(A('a'), tail=A2), A1)),
]


def rename_xy(t):
    if isinstance(t, tuple):
        if t and t[0] == 'var': return {'$X': A1, '$Y': A2, '$Z': A5}.get(t[2], t)
        return tuple(rename_xy(x) for x in t)
    return t


def all_bodies(tier):
    menu = c01.MENU_Q[:6] + c01.MENU_Q[7:9]
    extra = [rename_xy(b) for b in P.bodies(menu, 2 if tier == 'quick' else 3)]
    return BODIES + extra


def cases(tier, seed):
    out = []
    for i, b in enumerate(all_bodies(tier)):
        for qk in ('var', 'atom'):
            if i >= len(BODIES) and qk == 'atom' and i % 3: continue
            q = C('t', Q1) if qk == 'var' else C('t', A('b'))
            for pat in ((0, 1) if i < len(BODIES) else (0,)) if qk == 'var' else (1,):
                out.append({'id': 'program %d: %s ?- %s [names %d]' % (i, P.gtext(b), P.ttext(q), pat), 'body': i, 'q': qk, 'tier': tier, 'pat': pat})
    # the same programs as source text, parsed by parse_rule / parse_query, under several concrete naming schemes
    for i, b in enumerate(BODIES):
        for si in range(1, len(SCHEMES)):
            out.append({'id': 'text program %d under names %s' % (i, SCHEMES[si][:3]), 'fam': 'text', 'body': i, 'scheme': si, 'tier': tier})
    return out


LETTERS = 'XYZW'
SUFFIXES = ['', '_1', '_2', '2']


def name_clause(m, clause, tag, sfx=None):
    """give every variable of the clause the name "$" + symbolic letter + suffix, injective within the clause;
    sfx: dict placeholder -> suffix (the letters are solver variables, the suffix pattern is enumerated by the case)"""
    names = {}
    def go(t):
        if isinstance(t, tuple):
            if t and t[0] == 'var':
                if t[2] not in names:
                    c = m.fresh('%s.%s' % (tag, t[2][1:]), 'char')
                    suffix = (sfx or {}).get(t[2], '')
                    if isinstance(c, Sym):
                        m.assume(Sym(z3.Or([c.e == ord(x) for x in LETTERS]), 'bool'))
                        for (other, osuf) in names.values():
                            if osuf == suffix:
                                m.assume(Sym(c.e != (other.e if isinstance(other, Sym) else ord(other)), 'bool'))
                    names[t[2]] = (c, suffix)
                c, suffix = names[t[2]]
                return ('var', 0, ('$', c) + tuple(suffix) if isinstance(c, Sym) else '$' + c + suffix)
            return tuple(go(x) for x in t)
        return t
    return go(clause), {k: v[0] for k, v in names.items()}


SCHEMES = [['$A1', '$A2', '$A3', '$A4', '$A5', '$Q1'], ['$Gr\u00f6\u00dfe', '$Zo\u00e9', '$A\u00f1o', '$\u00c9t\u00e9', '$\u00dcber', '$\u00d8re'], ['$X_1', '$X_2', '$X_3', '$X_4', '$X_5', '$X_6'],
           ['$a', '$b', '$c', '$d', '$e', '$q'], ['$Value2', '$Value22', '$V', '$VV', '$VVV', '$Value'], ['$X', '$Y', '$X', '$Y', '$Z', '$X'],
           # names that differ only in case, in a trailing / leading character, or that are very long
           ['$X', '$x', '$Xy', '$xY', '$XY', '$xy'], ['$Ab', '$aB', '$AB', '$ab', '$A', '$a'],
           ['$' + 'LongVariableName' * 4, '$' + 'LongVariableName' * 4 + 'x', '$' + 'longVariableName' * 4, '$L', '$l', '$Lo']]


def rename_text(clause, scheme):
    """placeholder variables $A1..$A5, $Q1 -> the scheme's names (the last scheme reuses names across clauses: legal, scopes are per clause)"""
    names = dict(zip(SCHEMES[0], SCHEMES[scheme]))
    def go(t):
        if isinstance(t, tuple):
            if t and t[0] == 'var': return ('var', 0, names[t[2]])
            return tuple(go(x) for x in t)
        return t
    return go(clause)


def run_text(drv, case):
    m = drv.m
    body = all_bodies(case.get('tier', 'quick'))[case['body']]
    test = [(C('t', A1), body)] + HELP
    query = C('t', Q1)
    syms = {}
    base = [P.inst(m, c, syms) for c in PC.needed_base(test)]
    desc = case['id']
    try:
        P.ref_search(m, base + test, query, 8)
    except S.Outside:
        return {'tags': ['outside-claim'], 'nontrivial': False}
    def run_scheme(si):
        rules = [drv.rule(drv.term(h), None if b is None else drv.goal(b)) for h, b in base]
        for cl in test:
            text = P.ctext(rename_text(cl, si))
            r, res = drv.parse('rule', text)
            if res[0] != 'ok': raise Violation('text-rejected', '%s: parse_rule rejects %r' % (desc, text))
            rules.append(r)
        kb = drv.kb(rules)
        q, res = drv.parse('query', P.ttext(rename_text(query, si)))
        if res[0] != 'ok': raise Violation('text-rejected', '%s: parse_query rejects the query' % desc)
        node = drv.base(q, kb)
        answers, outs = [], []
        for i in range(9):
            r = drv.next(node); outs.append(drv.outs[-1])
            if r.h is None: break
            answers.append(drv.answer(q, r))
        return answers, outs
    try:
        a0, o0 = run_scheme(0)
        a1, o1 = run_scheme(case['scheme'])
    except ScenarioEnd as e:
        raise Violation('search-%s' % e.why[0], '%s: %s' % (desc, e.why[1][:200]))
    if len(a0) != len(a1):
        raise Violation('naming-changes-number-of-answers', '%s: %d answers with the plain names, %d with %s' % (desc, len(a0), len(a1), SCHEMES[case['scheme']]))
    for i, (x, y) in enumerate(zip(a0, a1)):
        if not R.alpha_eq(m, strip_names(R.abst(x)), strip_names(R.abst(y)), {}, {}):
            raise Violation('naming-changes-answer', '%s: answer %d is %s with the plain names and %s with %s' % (desc, i + 1, R.show(R.abst(x)), R.show(R.abst(y)), SCHEMES[case['scheme']]))
    if o0 != o1:
        raise Violation('naming-changes-output', '%s: output %r vs %r' % (desc, o0, o1))
    return {'tags': ['from-source-text'] + (['has-answers'] if a0 else []), 'note': desc}


def search(drv, clauses, query):
    kb = P.build_kb(drv, clauses)
    return P.impl_search(drv, kb, query, 8, 0)


def run(drv, case):
    if case.get('fam') == 'text': return run_text(drv, case)
    m = drv.m
    body = all_bodies(case.get('tier', 'quick'))[case['body']]
    test = [(C('t', A1), body)] + HELP
    query = C('t', Q1) if case['q'] == 'var' else C('t', A('b'))
    syms = {}
    base = [P.inst(m, c, syms) for c in PC.needed_base(test)]
    desc = case['id']
    try:
        P.ref_search(m, base + test, query, 8)       # drops programs outside the claim
    except S.Outside:
        return {'tags': ['outside-claim'], 'nontrivial': False}
    try:
        run0 = search(drv, base + test, query)
        named = []
        allnames = []
        # naming pattern 1: every variable of a clause gets the same letter slot family "$V_1", "$V_2", ... (suffixes differ);
        # pattern 0: plain one-letter names
        for ci, cl in enumerate(test):
            sfx = None
            if case.get('pat'):
                vs = sorted({v[2] for v in all_vars(cl)})
                sfx = {v: SUFFIXES[1 + (k % 3)] for k, v in enumerate(vs)}
            nc, nm = name_clause(m, cl, 'c%d' % ci, sfx); named.append(nc); allnames.append(nm)
        nq, qn = name_clause(m, query, 'q', {'$Q1': '_1'} if case.get('pat') else None)
        run1 = search(drv, base + named, nq)
    except ScenarioEnd as e:
        raise Violation('search-%s' % e.why[0], '%s: %s' % (desc, e.why[1][:200]))
    if len(run0.answers) != len(run1.answers) or run0.exhausted != run1.exhausted:
        raise Violation('naming-changes-number-of-answers', '%s: %d answers with the original names, %d after renaming (%s)' % (desc, len(run0.answers), len(run1.answers), shown(m, allnames, qn)))
    for i, (a, b) in enumerate(zip(run0.answers, run1.answers)):
        if not R.alpha_eq(m, strip_names(R.abst(a)), strip_names(R.abst(b)), {}, {}):
            raise Violation('naming-changes-answer', '%s: answer %d is %s with the original names and %s after renaming (%s)' % (desc, i + 1, R.show(R.abst(a)), R.show(R.abst(b)), shown(m, allnames, qn)))
    if run0.outs != run1.outs:
        raise Violation('naming-changes-output', '%s: output %r vs %r (%s)' % (desc, run0.outs, run1.outs, shown(m, allnames, qn)))
    tags = []
    if run0.answers: tags.append('has-answers')
    if len(run0.answers) > 1: tags.append('several-answers')
    if any(run0.outs): tags.append('writes-output')
    # which coincidence pattern is this path?
    try:
        mdl = m.model_inputs() if m.concrete_inputs is None else m.concrete_inputs
        per = [set(v for k, v in mdl.items() if k.startswith('c%d.' % ci)) for ci in range(len(test))]
        inter = set.intersection(*per) if per else set()
        tags.append('names-coincide-across-clauses' if inter else 'names-all-different')
    except Exception:
        pass
    return {'tags': tags, 'note': desc}


def all_vars(t, acc=None):
    if acc is None: acc = []
    if isinstance(t, tuple):
        if t and t[0] == 'var': acc.append(t)
        else:
            for x in t: all_vars(x, acc)
    return acc


def strip_names(t):
    if t[0] == 'var': return ('var', t[1], '')
    if t[0] == 'cplx': return ('cplx', tuple(strip_names(x) for x in t[1]))
    if t[0] == 'lst': return ('lst', tuple(strip_names(x) for x in t[1]), None if t[2] is None else strip_names(t[2]))
    return t


def shown(m, allnames, qn):
    try:
        from mirsym.machine import model_value
        mdl = m.model()
        f = lambda d: {k: ('$' + (model_value(mdl, v) if isinstance(v, Sym) else v)) for k, v in d.items()}
        return 'names: ' + '; '.join(str(f(d)) for d in allnames) + '; query ' + str(f(qn))
    except Exception:
        return 'names: ?'
