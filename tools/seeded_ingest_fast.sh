#!/bin/bash
# usage: tools/seeded_ingest_fast.sh <ID> <tag> <k> [extra checks...]
# Like seeded_ingest.sh for one delivery k, but confirms in the sub-agent's own scratch worktree /tmp/mut/<ID>
# (a clean checkout of /repo HEAD with a warm target dir) instead of a new one: demo on the clean tree, demo and
# suite with the patch; then runs the quick checks on a scratch worktree with the change applied.
set -u
ID=$1; TAG=$2; k=$3; shift 3
S=/tmp/mut/$ID; D=/verif/seeded/$ID-$TAG-$k; mkdir -p $D
cp $S/patch$k.diff $D/patch.diff; cp $S/demo$k.rs $D/demo.rs; cp $S/meta$k.json $D/agent_meta.json 2>/dev/null || echo '{}' > $D/agent_meta.json
cd $S; export CARGO_NET_OFFLINE=true
git checkout -q -- src; git diff --quiet HEAD -- src || { echo "worktree not clean"; exit 2; }
[ "$(git rev-parse HEAD)" = "$(git -C /repo rev-parse HEAD)" ] || { echo "worktree not at /repo HEAD"; exit 2; }
cp $D/demo.rs tests/mut_demo.rs
r_clean=$(timeout 600 cargo test --offline --test mut_demo 2>&1 | grep -E "^test result" | head -1)
git apply $D/patch.diff || { echo PATCH-DOES-NOT-APPLY; rm tests/mut_demo.rs; exit 2; }
r_mut=$(timeout 600 cargo test --offline --test mut_demo 2>&1 | grep -E "^test result|panicked|overflow|timed out|error(\[|:)" | head -3 | tr '\n' ' ')
rm tests/mut_demo.rs
suite=$(timeout 600 cargo nextest run --workspace --no-fail-fast --offline --test-threads 8 2>&1 | grep -E "Summary" | head -1)
git checkout -q -- src
echo "### $D"; echo "demo on clean tree : $r_clean"; echo "demo with the patch: $r_mut"; echo "suite with the patch: $suite"
cd /verif; VERIF_JOBS=${VERIF_JOBS:-6} tools/seeded_run_alt.sh $D/patch.diff $ID "$@"
