"""C12 - arithmetic functions compute the documented values."""
import z3
from mirsym.machine import Sym, PathInfeasible
from ..engine import Violation
from ..driver import ScenarioEnd
from .. import refunify as R
from . import bip_common as B
from .unify_common import struct_eq

ANCHORS = ['evaluate_add', 'evaluate_subtract', 'evaluate_multiply', 'evaluate_divide', 'get_numbers', 'unify_sfunction']
WITNESSES = {'all': ['int-result', 'float-result', 'overflow-outside-claim', 'through-chain', 'unified-with-var', 'unified-with-equal-constant', 'unified-with-other-constant', 'infix-text']}
OPTS = {'quick': {'selfcheck_mod': 25, 'budget_s': 280}, 'thorough': {'selfcheck_mod': 100, 'budget_s': 2400}}
STEP_LIMIT = 300_000
BOUNDS = {
    'quick': '4 operations x 24 curated concrete tuples (association order, conversion order, rounding, signs, zero divisors); add/subtract/multiply/divide on 1-3 arguments, every int/float type pattern, each argument a symbolic i64 (all 2^64 values) or symbolic f64 (all values, NaN and infinities included), '
             'given literally or through chains of 1-2 bound variables; result compared with the left-to-right fold written as one SMT term (bvadd/bvsub/bvmul/bvsdiv on 64 bits, '
             'fp.add/sub/mul/div RNE, to_fp for converted integers); the value is then unified with an unbound variable, an equal constant and a different constant; '
             'infix texts `$X = L op R` with 1-2 symbolic digits per operand through parse_subgoal. Integer multiply: operands bounded to |x| < 2^31 for the no-overflow side.',
    'thorough': 'same with 4 arguments, chains up to 3, 3-digit operands and decimal fractions in the infix family; unbounded 64-bit multiply attempted under a 120 s cap and reported',
}
OUTSIDE = 'integer overflow and integer division by zero (panic paths: counted, excluded as the statement says); the sign of a zero result (0.0 == -0.0)'
ASSUMPTIONS = ['float results are compared numerically: equal under ==, or both NaN']

OPS = ['add', 'subtract', 'multiply', 'divide']
TUPLES_LIST = [(0.1, 0.2, 10), (1e16, 1, 1e16), (1e300, 1e-300, 1e300), (7, 2, 2.0), (9007199254740993, 1, 0.5), (0.3, 0.1, 0.2), (1e308, 1e308, 1e308),
               (-7, 2), (7, -2), (-1, 4), (1, 3, 3.0), (2.5, 2, 2), (10, 4, 2.5, 2), (3, 0.0), (-3, 0.0), (0.0, 0.0), (5,), (2.5,), (-0.0,), (1e-320, 1e10, 1e10),
               (9223372036854775807, 1.0), (-9223372036854775808, 2, 1.5), (6, 3, 2, 1), (100, 7, 7, 7)]
SYM = {'add': '+', 'subtract': '-', 'multiply': '*', 'divide': '/'}


def cases(tier, seed):
    out = []
    maxn = 3 if tier == 'quick' else 4
    chains = [0, 1, 2] if tier == 'quick' else [0, 1, 2, 3]
    import itertools
    for op in OPS:
        for n in range(1, maxn + 1):
            for pat in itertools.product('if', repeat=n):
                for ch in chains:
                    if ch and n > 2 and tier == 'quick': continue
                    out.append({'id': '%s(%s) chain %d' % (op, ''.join(pat), ch), 'fam': 'eval', 'op': op, 'pat': ''.join(pat), 'chain': ch})
    # curated concrete tuples on which association order, conversion order and rounding show (no solver needed)
    TUPLES = TUPLES_LIST
    _unused = [(0.1, 0.2, 10), (1e16, 1, 1e16), (1e300, 1e-300, 1e300), (7, 2, 2.0), (9007199254740993, 1, 0.5), (0.3, 0.1, 0.2), (1e308, 1e308, 1e308),
              (-7, 2), (7, -2), (-1, 4), (1, 3, 3.0), (2.5, 2, 2), (10, 4, 2.5, 2), (3, 0.0), (-3, 0.0), (0.0, 0.0), (5,), (2.5,), (-0.0,), (1e-320, 1e10, 1e10),
              (9223372036854775807, 1.0), (-9223372036854775808, 2, 1.5), (6, 3, 2, 1), (100, 7, 7, 7)]
    for op in OPS:
        for ti, t in enumerate(TUPLES):
            out.append({'id': '%s%r' % (op, t), 'fam': 'values', 'op': op, 'tuple': ti})
    # unification of the value with the other operand
    for op in OPS:
        for pat in ('ii', 'if', 'fi', 'ff'):
            for other in ('var', 'equal', 'different', 'atom'):
                for side in ('left', 'right'):
                    out.append({'id': '%s(%s) unified with %s on the %s' % (op, pat, other, side), 'fam': 'unify', 'op': op, 'pat': pat, 'other': other, 'side': side})
    # infix text: operands "d" or "1d" (d a symbolic digit), optional minus sign on the left operand
    digs = [1, 2] if tier == 'quick' else [1, 2, 3]
    for op in OPS:
        for dl in digs:
            for dr in digs:
                for neg in (False, True):
                    out.append({'id': 'text $X = %s%s %s %s' % ('-' if neg else '', '1' * (dl - 1) + 'd', SYM[op], '1' * (dr - 1) + 'd'), 'fam': 'text', 'op': op, 'dl': dl, 'dr': dr, 'neg': neg, 'frac': False})
        out.append({'id': 'text $X = d.d %s d' % SYM[op], 'fam': 'text', 'op': op, 'dl': 1, 'dr': 1, 'neg': False, 'frac': True})
    return out


def fold(m, op, vals):
    """the documented value: left-to-right fold; ints -> 64-bit wrapping ops (overflow is outside the claim), any float -> f64"""
    anyf = any(k == 'float' for k, _ in vals)
    if anyf:
        xs = [v if k == 'float' else to_f(v) for k, v in vals]
        acc = xs[0]
        for x in xs[1:]:
            acc = m.binop({'add': 'Add', 'subtract': 'Sub', 'multiply': 'Mul', 'divide': 'Div'}[op], acc, x)
        return ('float', acc)
    acc = vals[0][1]
    for _, x in vals[1:]:
        acc = int_op(m, op, acc, x)
    return ('int', acc)


def int_op(m, op, a, b):
    if isinstance(a, Sym) or isinstance(b, Sym):
        ea = a.e if isinstance(a, Sym) else z3.BitVecVal(a, 64)
        eb = b.e if isinstance(b, Sym) else z3.BitVecVal(b, 64)
        if op == 'add': return Sym(ea + eb, 'i64')
        if op == 'subtract': return Sym(ea - eb, 'i64')
        if op == 'multiply': return Sym(ea * eb, 'i64')
        return Sym(ea / eb, 'i64')     # bvsdiv: truncating
    from mirsym.machine import wrap_int
    if op == 'add': return wrap_int(a + b, 'i64')
    if op == 'subtract': return wrap_int(a - b, 'i64')
    if op == 'multiply': return wrap_int(a * b, 'i64')
    q = abs(a) // abs(b)
    return wrap_int(q if (a < 0) == (b < 0) else -q, 'i64')


def to_f(x):
    if isinstance(x, Sym): return Sym(z3.fpSignedToFP(z3.RNE(), x.e, z3.Float64()), 'f64')
    return float(x)


def fp_norm(e):
    """numeric identities used to compare float results without bit-blasting:  1.0 * x = x (exact) and
    +0.0 + x = x (numerically: only the sign of a zero result can differ, which is outside the claim)"""
    if z3.is_app(e) and e.num_args() == 3:
        k = e.decl().kind()
        a, b = e.arg(1), e.arg(2)
        if k == z3.Z3_OP_FPA_MUL and z3.is_fp_value(a) and a.eq(z3.FPVal(1.0, z3.Float64())):
            return fp_norm(b)
        if k == z3.Z3_OP_FPA_ADD and z3.is_fp_value(a) and a.isZero() and not a.isNegative():
            return fp_norm(b)
        if k in (z3.Z3_OP_FPA_MUL, z3.Z3_OP_FPA_ADD, z3.Z3_OP_FPA_SUB, z3.Z3_OP_FPA_DIV):
            na, nb = fp_norm(a), fp_norm(b)
            if not (na.eq(a) and nb.eq(b)):
                f = {z3.Z3_OP_FPA_MUL: z3.fpMul, z3.Z3_OP_FPA_ADD: z3.fpAdd, z3.Z3_OP_FPA_SUB: z3.fpSub, z3.Z3_OP_FPA_DIV: z3.fpDiv}[k]
                return f(e.arg(0), na, nb)
    return e


def num_equal(m, a, b):
    """same type and same value; floats: == or both NaN"""
    if a[0] != b[0]: return False
    if a[0] == 'int': return R.eq(m, a[1], b[1])
    x, y = a[1], b[1]
    if isinstance(x, Sym) or isinstance(y, Sym):
        from mirsym.machine import to_z3
        ex, ey = fp_norm(to_z3(x, 'f64')), fp_norm(to_z3(y, 'f64'))
        if ex.eq(ey): return True          # syntactically the same term: equal for every input
        return m.branch(Sym(z3.Or(z3.fpEQ(ex, ey), z3.And(z3.fpIsNaN(ex), z3.fpIsNaN(ey))), 'bool'))
    return x == y or (x != x and y != y)


FLOATS = [0.5, -2.25, 3.0, 10.0]


def mk_args(m, env, case, concrete_floats=False):
    vals, terms = [], []
    for i, t in enumerate(case['pat']):
        if t == 'i' and concrete_floats and 'f' in case['pat']: v = ('int', [7, -3, 12, 5][i % 4])
        elif t == 'i': v = B.sym_int(m, 'a%d' % i)
        elif concrete_floats: v = ('float', FLOATS[i % len(FLOATS)])
        else: v = B.sym_float(m, 'a%d' % i)
        vals.append(v)
        terms.append(env.via_chain(v, case.get('chain', 0)))
    return vals, terms


def assume_no_overflow(m, op, vals):
    """precondition for all-integer multiply: no intermediate product overflows (outside the claim by the statement)"""
    acc = vals[0][1]
    for _, x in vals[1:]:
        r = m.binop('MulWithOverflow', acc, x, None, None) if (isinstance(acc, Sym) or isinstance(x, Sym)) else None
        if r is None:
            acc = int_op(m, op, acc, x); continue
        m.assume(Sym(z3.Not(r.fields[1].v.e), 'bool'))
        acc = r.fields[0].v


def outside(e, case):
    return e.why[0] == 'panic' and 'f' not in case['pat'] and ('overflow' in e.why[1] or 'by zero' in e.why[1])


def run_eval(drv, case):
    m = drv.m
    env = B.Env(drv)
    op = case['op']
    vals, terms = mk_args(m, env, case, False)
    tags = ['through-chain'] if case['chain'] else []
    if op == 'multiply' and 'f' not in case['pat'] and len(vals) > 1:
        assume_no_overflow(m, op, vals)
    try:
        res = drv.evalf(op, [drv.term(t) for t in terms], env.ss)
    except ScenarioEnd as e:
        # only arithmetic panics on all-integer arguments are outside the claim
        if outside(e, case):
            return {'tags': tags + ['overflow-outside-claim'], 'nontrivial': False}
        raise
    want = fold(m, op, vals)
    tags.append('int-result' if want[0] == 'int' else 'float-result')
    if not num_equal(m, res, want):
        raise Violation('wrong-value:%s:%s' % (op, case['pat']), '%s: evaluates to %s %s, the left-to-right fold is %s' % (case['id'], res[0], show(m, res), show(m, want)))
    return {'tags': tags, 'note': case['id']}


def show(m, t):
    if isinstance(t[1], Sym):
        try:
            from mirsym.machine import model_value
            return repr(model_value(m.model(), t[1]))
        except Exception:
            return '<symbolic>'
    return repr(t[1])


def run_unify(drv, case):
    m = drv.m
    env = B.Env(drv)
    op = case['op']
    vals, terms = mk_args(m, env, case, True)
    if op == 'multiply' and case['pat'] == 'ii': assume_no_overflow(m, op, vals)
    f = ('func', op, tuple(terms))
    kb = drv.kb([])
    want = None
    # evaluate first (also filters the panic paths that are outside the claim)
    try:
        val = drv.evalf(op, [drv.term(t) for t in terms], env.ss)
    except ScenarioEnd as e:
        if outside(e, case):
            return {'tags': ['overflow-outside-claim'], 'nontrivial': False}
        raise
    ref = fold(m, op, vals)
    if not num_equal(m, val, ref): raise PathInfeasible()    # reported by the eval family
    if isinstance(val[1], Sym) and val[0] == 'float':
        m.assume(Sym(z3.Not(z3.fpIsNaN(val[1].e)), 'bool'))   # NaN never equals itself: "equal constant" is undefined there
    oth = case['other']
    x = env.var('$X')
    if oth == 'var': other, expect = x, True
    elif oth == 'equal': other, expect = val, True
    elif oth == 'atom': other, expect = ('atom', 'a'), False
    else:
        d = B.sym_int(m, 'd') if val[0] == 'int' else B.sym_float(m, 'd', nan_ok=False)
        if num_equal(m, d, val): raise PathInfeasible()
        other, expect = d, False
    goal = ('gb', 'unify', (f, other) if case['side'] == 'left' else (other, f))
    r1, r2 = B.run_goal(drv, kb, goal, env.ss)
    tags = {'var': 'unified-with-var', 'equal': 'unified-with-equal-constant', 'different': 'unified-with-other-constant', 'atom': 'unified-with-other-constant'}[oth]
    if (r1.h is not None) != expect:
        raise Violation('value-not-unified:%s:%s:%s' % (op, oth, case['side']), '%s: the goal %s' % (case['id'], 'succeeds' if r1.h is not None else 'fails'))
    if oth == 'var':
        got = drv.resolve(drv.term(x), r1)
        if not num_equal(m, got, val):
            raise Violation('value-not-unified:%s:var:%s' % (op, case['side']), '%s: $X is bound to %s %s, the value is %s' % (case['id'], got[0], show(m, got), show(m, val)))
    if r2.h is not None:
        raise Violation('more-than-once:unify', case['id'] + ': a second answer was produced')
    return {'tags': [tags], 'note': case['id']}


def digits(m, name, n):
    """n-digit literal: n-1 fixed leading `1`s and one symbolic last digit"""
    c = m.fresh('%s.%d' % (name, n - 1), 'char')
    if isinstance(c, Sym):
        m.assume(Sym(z3.And(z3.UGE(c.e, 48), z3.ULE(c.e, 57)), 'bool'))
    return ['1'] * (n - 1) + [c]


def digits_value(m, cs):
    """concretise a digit string (the solver enumerates every feasible digit)"""
    s = ''.join(chr(m.concretize(c)) if isinstance(c, Sym) else c for c in cs)
    return s


def run_text(drv, case):
    m = drv.m
    op = case['op']
    dl, dr = digits(m, 'L', case['dl']), digits(m, 'R', case['dr'])
    ls, rs = digits_value(m, dl), digits_value(m, dr)
    if case['frac']:
        fl = digits_value(m, digits(m, 'F', 1))
        ls = ls + '.' + fl
    lsign = '-' if case['neg'] else ''
    text = '$X = %s%s %s %s' % (lsign, ls, SYM[op], rs)
    g, res = drv.parse('subgoal', text)
    if res[0] != 'ok':
        raise Violation('infix-rejected:%s' % op, '%s: parse_subgoal rejects %r: %s' % (case['id'], text, drv.hp and ''.join(c if isinstance(c, str) else '?' for c in res[1].chars)))
    kb = drv.kb([])
    q = drv.query([drv.term(('atom', 'q')), drv.term(('var', 0, '$X'))])   # ids: $X gets id 1
    g2 = drv.recreate(g)
    pg = drv.dump(g2)
    ss = drv.ss0()
    n = drv.node(g2, kb, ss)
    lv = ('float', float(lsign + ls)) if case['frac'] else ('int', int(lsign + ls))
    rv = ('int', int(rs))
    if op == 'divide' and rv[1] == 0 and not case['frac']:
        return {'tags': ['overflow-outside-claim'], 'nontrivial': False}
    r1 = drv.next(n)
    want = fold(m, op, [lv, rv])
    if r1.h is None:
        raise Violation('infix-fails:%s' % op, '%s: the goal %r fails' % (case['id'], text))
    xs = [t for t in R.vars_of(('cplx', tuple(pg[2]))).values()] if pg[0] == 'gb' and pg[2] else []
    if not xs:
        raise Violation('infix-shape:%s' % op, '%s: %r did not parse to a unification with a variable' % (case['id'], text))
    got = drv.resolve(drv.term(xs[0]), r1)
    if not num_equal(m, got, want):
        raise Violation('infix-value:%s' % op, '%r binds $X to %s %r, the documented value is %s %r' % (text, got[0], got[1], want[0], want[1]))
    return {'tags': ['infix-text'], 'note': text}


TUPLES_REF = None


def run_values(drv, case):
    m = drv.m
    env = B.Env(drv)
    t = _tuples()[case['tuple']]
    vals = [('float', float(x)) if isinstance(x, float) else ('int', x) for x in t]
    op = case['op']
    try:
        want = fold(m, op, vals)
        if want[0] == 'int' and not -(1 << 63) <= want[1] < (1 << 63): return {'tags': ['overflow-outside-claim'], 'nontrivial': False}
    except ZeroDivisionError:
        return {'tags': ['overflow-outside-claim'], 'nontrivial': False}
    try:
        res = drv.evalf(op, [drv.term(v) for v in vals], env.ss)
    except ScenarioEnd as e:
        if e.why[0] == 'panic' and all(v[0] == 'int' for v in vals) and ('overflow' in e.why[1] or 'by zero' in e.why[1]):
            return {'tags': ['overflow-outside-claim'], 'nontrivial': False}
        raise
    if not num_equal(m, res, want):
        raise Violation('wrong-value:%s:values' % op, '%s: evaluates to %s %r, the left-to-right fold is %s %r' % (case['id'], res[0], res[1], want[0], want[1]))
    return {'tags': ['int-result' if want[0] == 'int' else 'float-result', 'concrete-values'], 'note': case['id']}


def _tuples():
    global TUPLES_REF
    if TUPLES_REF is None:
        TUPLES_REF = [c for c in cases('quick', 0) if c.get('fam') == 'values']
        TUPLES_REF = TUPLES_LIST
    return TUPLES_REF


def run(drv, case):
    return {'eval': run_eval, 'unify': run_unify, 'text': run_text, 'values': run_values}[case['fam']](drv, case)
