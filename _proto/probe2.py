import sys, time
sys.path.insert(0, '.')
import mirsym
from mirsym import *
from models import *
from probe1 import atom,sint,var,anon,nil,cmplx,node,empty_ss,m

def goal_c(t): return Agg('Goal','ComplexGoal',2,[t])
def goal_b(name, terms=None):
    t = none() if terms is None else some(VecV([Cell(x) for x in terms]))
    return Agg('Goal','BuiltInGoal',1,[Agg('BuiltInPredicate',None,None,[RStr(name), t])])
def goal_and(*gs): return Agg('Goal','OperatorGoal',0,[Agg('Operator','And',0,[VecV([Cell(g) for g in gs])])])
def goal_or(*gs): return Agg('Goal','OperatorGoal',0,[Agg('Operator','Or',1,[VecV([Cell(g) for g in gs])])])
def goal_not(g): return Agg('Goal','OperatorGoal',0,[Agg('Operator','Not',3,[VecV([Cell(g)])])])
def goal_nil(): return Agg('Goal','Nil',3,[])
def rule(head, body=None): return Agg('Rule',None,None,[head, body if body is not None else goal_nil()])
def kb(rules):
    k = MapV()
    for r in rules:
        h = r.fields[0].v
        terms = h.fields[0].v.items
        key = terms[0].v.fields[0].v.concrete() + '/' + str(len(terms)-1)
        if key not in k.d: k.d[key] = (RStr(key), Cell(VecV()))
        k.d[key][1].v.items.append(Cell(r))
    return k

print(m.enums['Goal'], m.enums['Operator'])
X = lambda: var(0,'$X')
rules = [rule(cmplx(atom('p'),atom('a'))), rule(cmplx(atom('p'),atom('b'))),
         rule(cmplx(atom('q'),X()), goal_and(goal_c(cmplx(atom('p'),X())), goal_b('!'), goal_b('fail'))),
         rule(cmplx(atom('q'),atom('c')))]
K = kb(rules)
kbref = Ptr(Cell(K))
# query via make_query
def run_query(m, qterms, n=5):
    q = m.call('s_complex::make_query', [VecV([Cell(t) for t in qterms])])
    qrc = RcV(Cell(q))
    sn = m.call('goal::make_base_node', [qrc, kbref])
    out = []
    for i in range(n):
        r = m.call('solution_node::next_solution', [sn])
        if r.vidx == 0: out.append(None)
        else:
            res = m.call('goal::Goal::replace_variables', [Ptr(qrc.cell), Ptr(r.fields[0].v.cell)])
            out.append(''.join(render_display(m, res)))
    return out
t0=time.time()
print(run_query(m, [atom('q'), var(0,'$Y')]), m.steps, time.time()-t0)
m.reset([])
print(run_query(m, [atom('p'), var(0,'$Y')]), m.steps)
# not: r :- not(p(a)).  re-ask
rules2 = [rule(cmplx(atom('p'),atom('a'))), rule(cmplx(atom('r')), goal_not(goal_c(cmplx(atom('p'),atom('a')))))]
kbref = Ptr(Cell(kb(rules2)))
m.reset([])
print(run_query(m, [atom('r')]), m.steps, m.stdout)
