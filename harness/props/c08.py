"""C08 - variable bindings never form a cycle; resolving always terminates."""
import itertools
from mirsym.machine import PathInfeasible
from . import unify_common as UC
from . import c06
from .. import universe as U
from .. import refunify as R
from ..engine import Violation
from ..driver import ScenarioEnd

ANCHORS = UC.ANCHORS + ['get_ground_term', 'is_ground_variable', 'replace_variables']
WITNESSES = {'all': ['alias-chain', 'realias', 'success']}
OPTS = {'quick': {'selfcheck_mod': 60, 'budget_s': 240}, 'thorough': {'selfcheck_mod': 1500, 'budget_s': 2400}}
STEP_LIMIT = 60_000
NATIVE_TIMEOUT = 5.0
BOUNDS = {
    'quick': 'all histories of 1-3 successful unifications whose operands are drawn from {$V1,$V2,$V3, a, symbolic int, f($V1), f($V2), [$V1], [a | $V2], []} '
             '(both operand orders, each step through the real unify, occurs-check histories dropped by the reference); after every step: chain walk, '
             'get_ground_term / is_ground_variable / replace_variables on every variable under a 60k-statement step limit, and re-unification of every aliased pair in both orders; the 3-step alias histories are repeated with variable ids 64 and 128 apart (3/67/70, 1/65/129, 6/70/134)',
    'thorough': 'histories of up to 4 steps over the same operand set plus $V4, f($V3), [$V3 | $V1]',
}
OUTSIDE = 'histories in which the reference unifier needs an occurs check; function terms'
ASSUMPTIONS = ['a history step on which the real unify fails ends the history (only sequences of successful unifications are in the claim)']

OPS_Q = [['v', 1], ['v', 2], ['v', 3], ['a'], ['i'], ['f', ['v', 1]], ['f', ['v', 2]], ['l', 'p', [['v', 1]], None], ['l', 'p', [['a']], ['v', 2]], ['e']]
OPS_T = OPS_Q + [['v', 4], ['f', ['v', 3]], ['l', 'p', [['v', 3]], ['v', 1]]]


def steps(ops):
    out = []
    for a in ops:
        for b in ops:
            if a == b: continue
            if not (U.has(a, 'v') or U.has(b, 'v')): continue
            out.append((a, b))
    return out


def cases(tier, seed):
    ops = OPS_Q if tier == 'quick' else OPS_T
    st = steps(ops)
    varsteps = [(a, b) for a, b in st if a[0] == 'v' or b[0] == 'v']
    out = []
    def add(h): out.append({'id': ' ; '.join('%s=%s' % (U.text(a), U.text(b)) for a, b in h) + '|%d' % len(out), 'hist': [list(x) for x in h]})
    for s in st: add([s])
    for s1 in varsteps:
        for s2 in st: add([s1, s2])
    vv = [(a, b) for a, b in st if a[0] == 'v' and b[0] == 'v']
    v1 = [(a, b) for a, b in varsteps if U.size(a) + U.size(b) <= 2]
    for s1 in vv:
        for s2 in v1:
            for s3 in (v1 if tier == 'quick' else varsteps): add([s1, s2, s3])
    # the same alias histories with variable ids far apart (64 and 128 apart, beyond one machine word of any id bit set)
    for idmap in ([3, 67, 70], [1, 65, 129], [6, 70, 134]):
        for s1 in vv:
            for s2 in vv:
                for s3 in vv:
                    out.append({'id': 'ids %s: ' % idmap + ' ; '.join('%s=%s' % (U.text(a), U.text(b)) for a, b in (s1, s2, s3)) + '|%d' % len(out),
                                'hist': [list(x) for x in (s1, s2, s3)], 'idmap': idmap})
    if tier != 'quick':
        for s1 in vv:
            for s2 in vv:
                for s3 in vv:
                    for s4 in v1: add([s1, s2, s3, s4])
    return out


def after_step(drv, ss, vars_seen, desc):
    m = drv.m
    cur = drv.dumpss(ss)
    cyc = R.impl_chain_ok(cur)
    if cyc is not None:
        raise Violation('cycle', '%s: following bindings from variable %d never ends (%s)' % (desc, cyc, [R.show(e) if e else '-' for e in cur]))
    tags = []
    for vid, v in sorted(vars_seen.items()):
        tv = drv.term(v)
        try:
            drv.ground(tv, ss); drv.isground(tv, ss); drv.resolve(tv, ss)
        except ScenarioEnd as e:
            raise Violation('resolve-hangs', '%s: resolving %s does not terminate (%s)' % (desc, R.show(v), e.why[0]))
    # aliased pairs: unifying them again, in either order, adds no binding
    ids = sorted(vars_seen)
    isub = R.impl_sub(cur)
    for i, j in itertools.combinations(ids, 2):
        ri, rj = R.resolve_impl(vars_seen[i], isub), R.resolve_impl(vars_seen[j], isub)
        if ri[0] == 'var' and rj[0] == 'var' and ri[1] == rj[1]:
            tags.append('realias')
            for x, y in ((i, j), (j, i)):
                r = drv.unify(drv.term(vars_seen[x]), drv.term(vars_seen[y]), ss)
                if r.h is None:
                    raise Violation('realias-fails', '%s: unifying the aliased %s and %s again fails' % (desc, R.show(vars_seen[x]), R.show(vars_seen[y])))
                nxt = drv.dumpss(r)
                if len(nxt) != len(cur) or any(not UC.struct_eq(m, p, q) for p, q in zip(nxt, cur)):
                    raise Violation('realias-binds', '%s: unifying the aliased %s and %s again changes the bindings to %s' % (
                        desc, R.show(vars_seen[x]), R.show(vars_seen[y]), [R.show(e) if e else '-' for e in nxt]))
    return tags


def run(drv, case):
    m = drv.m
    ss, sub, vars_seen = drv.ss0(), {}, {}
    tags = set()
    done = []
    idmap = case.get('idmap')
    def remap(t):
        if idmap is None or not isinstance(t, tuple): return t
        if t and t[0] == 'var' and isinstance(t[1], int) and 1 <= t[1] <= len(idmap): return ('var', idmap[t[1] - 1], t[2])
        return tuple(remap(x) for x in t)
    for n, (A, B) in enumerate(case['hist']):
        a = remap(U.inst(m, A, 'a%d' % n)); b = remap(U.inst(m, B, 'b%d' % n))
        aa, ab = UC.build_pterm(a), UC.build_pterm(b)
        R.vars_of(aa, vars_seen); R.vars_of(ab, vars_seen)
        try:
            sub2 = R.unify(m, aa, ab, sub)
        except R.OccursCheck:
            return {'tags': ['occurs-check-outside-claim'], 'nontrivial': False}
        r = drv.unify(drv.term(a), drv.term(b), ss)
        done.append('%s = %s' % (U.text(A), U.text(B)))
        if r.h is None or sub2 is None:
            # only sequences of successful unifications are in the claim (success agreement is C06)
            return {'tags': list(tags) + ['history-ended-by-failure'], 'nontrivial': n > 0}
        tags.add('success')
        if A[0] == 'v' and B[0] == 'v': tags.add('alias-chain')
        tags.update(after_step(drv, r, vars_seen, ', '.join(done)))
        ss, sub = r, sub2
    return {'tags': list(tags), 'note': ', '.join(done)}
