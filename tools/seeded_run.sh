#!/bin/bash
# usage: tools/seeded_run.sh <patch.diff> <check id>...   -- applies the patch to /repo, runs the quick checks, undoes it
set -u
P=$(realpath "$1"); shift
cd /verif
git -C /repo apply "$P" || { echo "patch does not apply"; exit 2; }
for c in "$@"; do
  out=$(VERIF_JOBS=${VERIF_JOBS:-12} timeout 1200 ./check $c --tier ${TIER:-quick} 2>&1); rc=$?
  echo "== $c rc=$rc"
  echo "$out" | grep -E "^VIOLATION|^  |^INCONCLUSIVE|^C[0-9]+ " | cut -c1-260 | head -${LINES_MAX:-6}
done
git -C /repo checkout -- .
