"""Reference semantics for terms: abstraction of list nodes, Robinson unification on a triangular
substitution, resolution, and comparison up to renaming of unbound variables.

Deliberately independent of the implementation's data layout.  Scalars may be symbolic (Sym): every
comparison goes through `eq(m, x, y)`, which asks the solver (m.branch) when undetermined, so the
reference is evaluated on every solver-separated sub-path.

Abstract terms:
  ('atom', name) ('int', v) ('float', v) ('var', id, name) ('anon',)
  ('cplx', (args...))    ('lst', (elems...), tail)   tail: None | ('var',..) | ('anon',)
  ('func', name, (args...))
  ('bad', why)           an ill-formed list structure (never produced for well-formed input)
"""
from mirsym.machine import Sym


class OccursCheck(Exception):
    pass


class IllFormed(Exception):
    pass


# ---------------------------------------------------------------- scalar comparisons

def eq(m, x, y):
    if isinstance(x, Sym) or isinstance(y, Sym):
        return m.branch(m.binop('Eq', x, y))
    return x == y


def name_eq(m, a, b):
    ca = list(a); cb = list(b)
    if len(ca) != len(cb): return False
    for x, y in zip(ca, cb):
        if not eq(m, x, y): return False
    return True


# ---------------------------------------------------------------- abstraction of raw list nodes

def abst(t):
    """pterm (raw nodes) -> abstract term.  A node with tail_var=true holding a list is spliced."""
    k = t[0]
    if k in ('atom', 'int', 'float', 'var', 'anon'): return t
    if k == 'nil': return ('bad', 'bare Nil as a term')
    if k == 'cplx': return ('cplx', tuple(abst(x) for x in t[1]))
    if k == 'func': return ('func', t[1], tuple(abst(x) for x in t[2]))
    if k == 'lst': return t
    if k == 'node':
        elems = []
        cur = t
        while True:
            if cur[0] == 'nil':
                return ('bad', 'chain ends in bare Nil')
            if cur[0] != 'node':
                return ('bad', 'next is not a node')
            term, nxt, cnt, tv = cur[1], cur[2], cur[3], cur[4]
            if term[0] == 'nil':
                if nxt[0] != 'nil' or cnt != 0 or tv: return ('bad', 'malformed empty node')
                return ('lst', tuple(elems), None)
            if tv:
                # must be last: next is the empty node
                if not (nxt[0] == 'node' and nxt[1][0] == 'nil'):
                    return ('bad', 'tail_var node is not last')
                if term[0] in ('var', 'anon'):
                    return ('lst', tuple(elems), term)
                inner = abst(term)
                if inner[0] == 'lst':
                    return ('lst', tuple(elems) + inner[1], inner[2])
                # a tail bound to a non-list ([a | $T] with $T = b): an improper list, as in Prolog; it is a value, not a defect
                return ('lst', tuple(elems), inner)
            elems.append(abst(term))
            cur = nxt
    raise ValueError('abst: %r' % (t,))


def wellformed(t):
    """structural check of a raw list pterm: every node is a node, chain ends in the empty node,
    count = elements from there, tail_var only on the last element.  Returns None or a reason."""
    if t[0] != 'node': return 'not a list node'
    nodes = []
    cur = t
    while True:
        if cur[0] != 'node': return 'chain reaches %s instead of the empty node' % cur[0]
        if cur[1][0] == 'nil':
            if cur[2][0] != 'nil' or cur[3] != 0 or cur[4]: return 'malformed empty node'
            break
        nodes.append(cur)
        cur = cur[2]
    n = len(nodes)
    for i, nd in enumerate(nodes):
        if nd[3] != n - i: return 'count field %r at position %d, %d elements remain' % (nd[3], i, n - i)
        if nd[4] and i != n - 1: return 'tail_var set on a non-last element'
    return None


def has_bad(t):
    if t[0] == 'bad': return t[1]
    if t[0] in ('cplx',):
        for x in t[1]:
            r = has_bad(x)
            if r: return r
    if t[0] == 'func':
        for x in t[2]:
            r = has_bad(x)
            if r: return r
    if t[0] == 'lst':
        for x in t[1]:
            r = has_bad(x)
            if r: return r
    return None


# ---------------------------------------------------------------- reference unifier

def walk(t, sub):
    while t[0] == 'var' and t[1] in sub:
        t = sub[t[1]]
    return t


def list_view(t, sub):
    """flatten an abstract list through bound tails: -> (elems, tail) tail None|var|anon, or None if not a list"""
    elems = []
    while True:
        if t[0] != 'lst': return None
        elems.extend(t[1])
        tl = t[2]
        if tl is None or tl[0] == 'anon': return elems, tl
        w = walk(tl, sub)
        if w[0] == 'var': return elems, w
        if w[0] == 'lst':
            t = w; continue
        return None   # tail bound to a non-list: an improper list


def occurs(vid, t, sub):
    t = walk(t, sub)
    k = t[0]
    if k == 'var': return t[1] == vid
    if k == 'cplx': return any(occurs(vid, x, sub) for x in t[1])
    if k == 'func': return any(occurs(vid, x, sub) for x in t[2])
    if k == 'lst':
        if any(occurs(vid, x, sub) for x in t[1]): return True
        return t[2] is not None and occurs(vid, t[2], sub)
    return False


def bind(v, t, sub):
    if occurs(v[1], t, sub): raise OccursCheck()
    s2 = dict(sub); s2[v[1]] = t
    return s2


def unify(m, a, b, sub):
    """returns the extended substitution (dict id -> abstract term) or None.  Raises OccursCheck when
    the pair needs an occurs check (outside the claims)."""
    a = walk(a, sub); b = walk(b, sub)
    if a[0] == 'anon' or b[0] == 'anon': return sub
    if a[0] == 'var':
        if b[0] == 'var' and b[1] == a[1]: return sub
        return bind(a, b, sub)
    if b[0] == 'var':
        return bind(b, a, sub)
    if a[0] != b[0]: return None
    k = a[0]
    if k == 'atom': return sub if name_eq(m, a[1], b[1]) else None
    if k in ('int', 'float'): return sub if eq(m, a[1], b[1]) else None
    if k == 'cplx':
        if len(a[1]) != len(b[1]): return None
        for x, y in zip(a[1], b[1]):
            sub = unify(m, x, y, sub)
            if sub is None: return None
        return sub
    if k == 'lst':
        va, vb = list_view(a, sub), list_view(b, sub)
        if va is None or vb is None:
            # an improper list (a tail bound to a non-list) takes part: outside every claim, handled like an occurs-check pair
            raise OccursCheck()
        (ea, ta), (eb, tb) = va, vb
        n = min(len(ea), len(eb))
        for x, y in zip(ea[:n], eb[:n]):
            sub = unify(m, x, y, sub)
            if sub is None: return None
        ra, rb = ea[n:], eb[n:]
        if ra and rb: raise AssertionError
        if not ra and not rb:
            if ta is None and tb is None: return sub
            if ta is None: return unify(m, tb, ('lst', (), None), sub)
            if tb is None: return unify(m, ta, ('lst', (), None), sub)
            return unify(m, ta, tb, sub)
        if ra:   # a is longer: b needs a tail that takes the rest of a
            if tb is None: return None
            return unify(m, tb, ('lst', tuple(ra), ta), sub)
        if ta is None: return None
        return unify(m, ta, ('lst', tuple(rb), tb), sub)
    if k == 'func':
        raise ValueError('function terms are outside the reference unifier')
    raise ValueError('unify: %r' % (a,))


def resolve(t, sub, depth=0):
    """fully resolved abstract term (lists flattened through bound tails)"""
    if depth > 200: raise OccursCheck()
    t = walk(t, sub)
    k = t[0]
    if k == 'cplx': return ('cplx', tuple(resolve(x, sub, depth + 1) for x in t[1]))
    if k == 'func': return ('func', t[1], tuple(resolve(x, sub, depth + 1) for x in t[2]))
    if k == 'lst':
        v = list_view(t, sub)
        if v is None:
            # improper (tail bound to a non-list): keep shape visible
            return ('lst', tuple(resolve(x, sub, depth + 1) for x in t[1]), resolve(t[2], sub, depth + 1))
        return ('lst', tuple(resolve(x, sub, depth + 1) for x in v[0]), v[1])
    return t


# ---------------------------------------------------------------- resolution of the implementation's result

class Cycle(Exception):
    pass


def impl_sub(ss):
    """implementation substitution (list of raw pterm|None) -> dict id -> abstract term"""
    out = {}
    for i, e in enumerate(ss):
        if e is not None: out[i] = abst(e)
    return out


def impl_chain_ok(ss):
    """C08: following bindings from any variable ends at an unbound variable or a non-variable term.
    Returns None or the id of a variable on a cycle."""
    n = len(ss)
    for start in range(n):
        seen = set(); i = start
        while True:
            if i in seen: return start
            seen.add(i)
            if i >= n or ss[i] is None: break
            e = ss[i]
            if e[0] != 'var': break
            i = e[1]
            if isinstance(i, Sym): break
    return None


def resolve_impl(t, sub):
    """resolve an abstract term under the implementation's bindings, detecting cycles"""
    def go(t, active):
        while t[0] == 'var' and t[1] in sub:
            if t[1] in active: raise Cycle()
            active = active | {t[1]}
            t = sub[t[1]]
        k = t[0]
        if k == 'cplx': return ('cplx', tuple(go(x, active) for x in t[1]))
        if k == 'func': return ('func', t[1], tuple(go(x, active) for x in t[2]))
        if k == 'lst':
            elems = [go(x, active) for x in t[1]]
            tl = t[2]
            if tl is None or tl[0] == 'anon': return ('lst', tuple(elems), tl)
            r = go(tl, active)
            if r[0] == 'lst': return ('lst', tuple(elems) + r[1], r[2])
            return ('lst', tuple(elems), r)
        return t
    return go(t, frozenset())


# ---------------------------------------------------------------- comparison up to renaming

def alpha_eq(m, a, b, fwd, bwd, anon_wild=False):
    """structural equality of resolved abstract terms, unbound variables matched by a bijection
    (fwd: id in a -> id in b, bwd the inverse), built as we go.  anon_wild: a `$_` on either side
    matches anything (used for 'both terms identical when resolved')."""
    if anon_wild and (a[0] == 'anon' or b[0] == 'anon'): return True
    if a[0] != b[0]: return False
    k = a[0]
    if k == 'anon': return True
    if k == 'var':
        x, y = a[1], b[1]
        if x in fwd or y in bwd: return fwd.get(x) == y and bwd.get(y) == x
        fwd[x] = y; bwd[y] = x
        return True
    if k == 'atom': return name_eq(m, a[1], b[1])
    if k in ('int', 'float'): return eq(m, a[1], b[1])
    if k == 'cplx':
        return len(a[1]) == len(b[1]) and all(alpha_eq(m, x, y, fwd, bwd, anon_wild) for x, y in zip(a[1], b[1]))
    if k == 'func':
        return name_eq(m, a[1], b[1]) and len(a[2]) == len(b[2]) and \
            all(alpha_eq(m, x, y, fwd, bwd, anon_wild) for x, y in zip(a[2], b[2]))
    if k == 'lst':
        if len(a[1]) != len(b[1]):
            if anon_wild:
                # a `$_` tail absorbs the rest of the other list
                sh, lg = (a, b) if len(a[1]) < len(b[1]) else (b, a)
                if sh[2] is not None and sh[2][0] == 'anon':
                    n = len(sh[1])
                    pa, pb = (a[1][:n], b[1][:n])
                    return all(alpha_eq(m, x, y, fwd, bwd, anon_wild) for x, y in zip(pa, pb))
            return False
        if not all(alpha_eq(m, x, y, fwd, bwd, anon_wild) for x, y in zip(a[1], b[1])): return False
        ta, tb = a[2], b[2]
        if ta is None or tb is None:
            if anon_wild and ((ta is None and tb is not None and tb[0] == 'anon') or (tb is None and ta is not None and ta[0] == 'anon')):
                return True
            return ta is None and tb is None
        return alpha_eq(m, ta, tb, fwd, bwd, anon_wild)
    if k == 'bad': return False
    raise ValueError('alpha_eq %r' % (a,))


def vars_of(t, acc=None):
    if acc is None: acc = {}
    k = t[0]
    if k == 'var': acc.setdefault(t[1], t)
    elif k == 'cplx':
        for x in t[1]: vars_of(x, acc)
    elif k == 'func':
        for x in t[2]: vars_of(x, acc)
    elif k == 'lst':
        for x in t[1]: vars_of(x, acc)
        if t[2] is not None: vars_of(t[2], acc)
    elif k == 'node':
        vars_of(t[1], acc); vars_of(t[2], acc)
    return acc


def show(t):
    """human-readable text of an abstract/raw term with concrete leaves (for reports)"""
    k = t[0]
    if k == 'atom': return t[1] if isinstance(t[1], str) else '<atom>'
    if k == 'int': return str(t[1])
    if k == 'float': return repr(t[1])
    if k == 'var': return '%s_%s' % (t[2] if isinstance(t[2], str) else '$?', t[1])
    if k == 'anon': return '$_'
    if k == 'nil': return 'Nil'
    if k == 'cplx':
        return show(t[1][0]) + '(' + ', '.join(show(x) for x in t[1][1:]) + ')'
    if k == 'func': return (t[1] if isinstance(t[1], str) else '<fn>') + '(' + ', '.join(show(x) for x in t[2]) + ')'
    if k == 'lst':
        s = ', '.join(show(x) for x in t[1])
        if t[2] is not None: s += ' | ' + show(t[2])
        return '[' + s + ']'
    if k == 'node':
        a = abst(t)
        return show(a) if a[0] != 'bad' else '<ill-formed list: %s>' % a[1]
    if k == 'bad': return '<bad: %s>' % t[1]
    return repr(t)
