"""C17 - count, include/exclude, functor and join compute documented results."""
import itertools
import z3
from mirsym.machine import Sym, PathInfeasible
from ..engine import Violation
from ..driver import ScenarioEnd
from .. import refunify as R
from .. import universe as U
from .. import heap as H
from . import bip_common as B
from .unify_common import struct_eq, build_pterm
from .c16 import to_spec, txt

ANCHORS = ['bip_count', 'count_terms', 'bip_include', 'bip_exclude', 'filter', 'next_solution_functor', 'atoms_match', 'evaluate_join', 'get_terms', 'recreate_variables']
WITNESSES = {'all': ['count', 'include', 'exclude', 'functor', 'join', 'bound-tail', 'prefix-pattern', 'punctuation', 'filter-with-variable', 'in-a-rule-body']}
OPTS = {'quick': {'selfcheck_mod': 20, 'budget_s': 280}, 'thorough': {'selfcheck_mod': 150, 'budget_s': 2400}}
STEP_LIMIT = 150_000
NATIVE_TIMEOUT = 5.0
BOUNDS = {
    'quick': 'count over lists of 0-3 elements (nested, empty-list elements, tails bound to lists of 0-2 elements directly, through a second variable, and to lists that again end in a bound tail; through variables); include/exclude with filters '
             '{a, $_, $F unbound, $F bound, f($_), f($F), symbolic i64} over lists of 0-3 elements drawn from {a, b, symbolic i64, f(a), f(b), [b], $E bound to a} incl. bound tails; '
             'functor on complex terms of arity 0-4 with exact / `prefix*` patterns (1- and 2-character prefixes) whose characters are symbolic over U+0061..U+07FF (one- and two-byte characters), variable functor position, 2- and 3-argument forms; '
             'join over 1-4 words/punctuation marks chosen from {w, x, ",", ".", "?", "!"} given directly, in lists and through bound variables; 26 programs with the built-ins in a rule body (variables inside list literals and complex terms, filled in from the head), answers compared with the reference',
    'thorough': 'lists up to 4 elements, 5 join items, functor names of up to 3 symbolic characters',
}
OUTSIDE = 'count on lists with an unbound tail or on non-lists; join on non-atomic items'
ASSUMPTIONS = ['filter matching is judged by the reference unifier under the current substitution']

LISTS = [['e'], ['l', 'p', [['a']], None], ['l', 'p', [['a'], ['b']], None], ['l', 'p', [['a'], ['e'], ['l', 'p', [['b']], None]], None],
         ['bt', [['a']], [['b']]], ['bt', [['a'], ['b']], []], ['bt', [['a']], [['b'], ['q', 'c']]], ['l', 'p', [['i'], ['f', ['a']], ['a']], None],
         ['btc', [['a']], [['b'], ['q', 'c']]], ['btn', [['a'], ['b']], [['q', 'c']], [['q', 'd'], ['q', 'e'], ['q', 'f']]], ['btn', [['a']], [], [['b']]]]
FILTERS = [['a'], ['_'], ['v', 1], ['vb', 1, ['a']], ['f', ['_']], ['f', ['v', 1]], ['i']]
FLISTS = [['e'], ['l', 'p', [['a'], ['b'], ['a']], None], ['l', 'p', [['f', ['a']], ['a'], ['f', ['b']]], None], ['l', 'p', [['i'], ['k', 5], ['a']], None],
          ['l', 'p', [['l', 'p', [['b']], None], ['a']], None], ['bt', [['a']], [['b'], ['a']]], ['l', 'p', [['vb', 2, ['a']], ['b']], None], ['l', 'p', [['a'], ['l', 'p', [['b']], None]], None],
          ['btc', [['a']], [['b'], ['a']]], ['btn', [['a']], [['b']], [['a'], ['f', ['a']]]]]
WORDS = ['w', 'x', ',', '.', '?', '!']


def cases(tier, seed):
    out = []
    for l in LISTS:
        for chain in (0, 1, 2):
            out.append({'id': 'count(%s/%d)' % (txt(l), chain), 'fam': 'count', 'L': l, 'chain': chain})
    for pred in ('include', 'exclude'):
        for f in FILTERS:
            for l in FLISTS:
                for chain in (0, 1):
                    out.append({'id': '%s(%s, %s/%d)' % (pred, ftxt(f), ftxt(l), chain), 'fam': pred, 'F': f, 'L': l, 'chain': chain})
    for arity in range(0, 5):
        for pat in ('exact', 'other', 'prefix', 'prefix-miss', 'star-only', 'var', 'boundvar', 'int', 'bound-prefix', 'bound-prefix-miss', 'bound-other', 'bound-star', 'bound-int', 'prefix2', 'prefix2-miss'):
            for nargs in (2, 3):
                for chain in (0, 1):
                    out.append({'id': 'functor(arity %d, %s, %d args, chain %d)' % (arity, pat, nargs, chain), 'fam': 'functor', 'arity': arity, 'pat': pat, 'nargs': nargs, 'chain': chain})
    nmax = 3 if tier == 'quick' else 4
    for n in range(1, nmax + 1):
        for shape in ('direct', 'list', 'vars', 'mixed', 'listvars'):
            out.append({'id': 'join %d items %s' % (n, shape), 'fam': 'join', 'n': n, 'shape': shape})
    from .. import progs as P
    for i, (cl, q) in enumerate(rule_programs()):
        out.append({'id': 'in a rule: %s ?- %s' % (P.ctext(cl[0]), P.ttext(q)), 'fam': 'rule', 'i': i})
    return out


def rule_programs():
    """the built-ins written in a rule body: their arguments go through the renaming of the fetched clause and get values from the head"""
    from ..progs import V, A, C, L, I, gc, gb, AND, U as UNI, F
    X, Y, O, Lv = V('X'), V('Y'), V('Out'), V('L')
    bodies = [UNI(O, F('join', L(A('Hello'), X), A('!'))), UNI(O, F('join', X, L(Y, A('?')))), AND(UNI(Lv, L(X, A('b'))), UNI(O, F('join', Lv, A('.')))),
              UNI(O, F('join', L(L(X)), Y)) if False else UNI(O, F('join', A('w'), L(X, Y), A(','), X)),
              gb('count', L(A('a'), X, C('f', X)), O), gb('count', L(X, tail=Lv), O), AND(UNI(Lv, L(Y, Y)), gb('count', L(X, tail=Lv), O)),
              gb('include', C('f', ('anon',)), L(C('f', X), A('b'), C('f', Y)), O), gb('exclude', X, L(A('a'), X, Y), O), gb('include', X, L(Y, C('f', X), X), O),
              gb('functor', C('g', X, A('k')), O), gb('functor', C('g', X, C('h', Y)), A('g*'), O), AND(UNI(Lv, C('pair', X, Y)), gb('functor', Lv, O, I(2)))]
    out = []
    for b in bodies:
        for q in (C('t', A('Ann'), A('b'), O), C('t', A('a'), A('a'), O)):
            out.append(([(C('t', X, Y, O), b)], q))
    return out


def run_rule(drv, case):
    from .. import progs as P
    from .. import refsld as S
    m = drv.m
    clauses, query = rule_programs()[case['i']]
    desc = case['id']
    try:
        ref = P.ref_search(m, clauses, query, 4)
    except S.Outside:
        return {'tags': ['outside-claim'], 'nontrivial': False}
    kb = P.build_kb(drv, clauses)
    try:
        run_ = P.impl_search(drv, kb, query, 4, 0)
    except ScenarioEnd as e:
        raise Violation('rule-%s' % e.why[0], '%s: %s' % (desc, e.why[1][:200]))
    problem = P.compare_runs(m, run_, ref, desc)
    if problem is not None: raise Violation('rule-' + problem[0], problem[1])
    return {'tags': ['in-a-rule-body'], 'note': desc}


def ftxt(a):
    if a[0] == 'vb': return '$V%d=%s' % (a[1], ftxt(a[2]))
    if a[0] in ('bt', 'btc', 'btn'): return txt(a)
    if a[0] == 'l': return '[' + ', '.join(ftxt(x) for x in a[2]) + ']'
    if a[0] in ('f', 'g'): return a[0] + '(' + ', '.join(ftxt(x) for x in a[1:]) + ')'
    return U.text(a)


def inst(m, env, sh, path):
    """like U.inst, plus ['vb', n, value]: variable n bound (really) to value; ['bt', head, tail]: list with a bound tail"""
    k = sh[0]
    if k == 'vb':
        v = ('var', sh[1], '$V%d' % sh[1])
        if sh[1] not in env.bound: env.bind(v, inst(m, env, sh[2], path + '.b'))
        return v
    if k == 'bt':
        tv = env.var('$T')
        env.bind(tv, ('plist', tuple(inst(m, env, x, '%s.t%d' % (path, i)) for i, x in enumerate(sh[2])), None))
        return ('plist', tuple(inst(m, env, x, '%s.h%d' % (path, i)) for i, x in enumerate(sh[1])), tv)
    if k == 'btc':       # tail variable -> second variable -> list
        tv, uv = env.var('$T'), env.var('$U')
        env.bind(uv, ('plist', tuple(inst(m, env, x, '%s.t%d' % (path, i)) for i, x in enumerate(sh[2])), None))
        env.bind(tv, uv)
        return ('plist', tuple(inst(m, env, x, '%s.h%d' % (path, i)) for i, x in enumerate(sh[1])), tv)
    if k == 'btn':       # tail bound to a list that ends in another bound tail variable
        tv, uv = env.var('$T'), env.var('$U')
        env.bind(uv, ('plist', tuple(inst(m, env, x, '%s.u%d' % (path, i)) for i, x in enumerate(sh[3])), None))
        env.bind(tv, ('plist', tuple(inst(m, env, x, '%s.t%d' % (path, i)) for i, x in enumerate(sh[2])), uv))
        return ('plist', tuple(inst(m, env, x, '%s.h%d' % (path, i)) for i, x in enumerate(sh[1])), tv)
    if k == 'l':
        return ('plist', tuple(inst(m, env, x, '%s.%d' % (path, i)) for i, x in enumerate(sh[2])), None if sh[3] is None else inst(m, env, sh[3], path + '.t'))
    if k in ('f', 'g'):
        return ('cplx', (('atom', k),) + tuple(inst(m, env, x, '%s.%d' % (path, i)) for i, x in enumerate(sh[1:])))
    return U.inst(m, sh, path)


def ref_sub(env):
    return {vid: build_pterm(val) for vid, val in env.bound.items()}


def elements(t, sub):
    """reference element sequence of a (possibly bound-tailed) list term"""
    v = R.list_view(R.walk(build_pterm(t), sub), sub)
    if v is None or v[1] is not None: return None
    return v[0]


def out_value(drv, r, out, desc):
    after = drv.dumpss(r)
    try:
        got = R.resolve_impl(out, R.impl_sub(after))
    except R.Cycle:
        raise Violation('cycle', desc + ': Out is on a binding cycle')
    return got, after


def only_out_bound(m, before, after, out, desc, what):
    for i, e in enumerate(after):
        b = before[i] if i < len(before) else None
        if i == out[1]: continue
        if not struct_eq(m, b, e):
            raise Violation(what + '-binds-other', '%s: variable %d changed from %s to %s' % (desc, i, R.show(b) if b else 'unbound', R.show(e) if e else 'unbound'))


def run_count(drv, case):
    m = drv.m
    env = B.Env(drv, first_id=10)
    l = inst(m, env, case['L'], 'L')
    want = elements(l, ref_sub(env))
    t = env.via_chain(l, case['chain'])
    out = env.var('$N')
    kb = drv.kb([])
    before = drv.dumpss(env.ss)
    r1, r2 = B.run_goal(drv, kb, ('gb', 'count', (t, out)), env.ss)
    desc = case['id']
    if r1.h is None: raise Violation('count-fails', desc + ': the goal fails')
    if r2.h is not None: raise Violation('more-than-once:count', desc + ': a second answer')
    got, after = out_value(drv, r1, out, desc)
    if got[0] != 'int' or not R.eq(m, got[1], len(want)):
        raise Violation('count-wrong', '%s: counted %s, the list has %d elements' % (desc, R.show(got), len(want)))
    only_out_bound(m, before, after, out, desc, 'count')
    # also with the count given: right and wrong numbers
    for n, ok in ((len(want), True), (len(want) + 1, False)):
        ra, _ = B.run_goal(drv, kb, ('gb', 'count', (t, ('int', n))), env.ss, times=2)
        if (ra.h is not None) != ok:
            raise Violation('count-check', '%s: count(L, %d) %s' % (desc, n, 'succeeds' if ra.h is not None else 'fails'))
    return {'tags': ['count'] + (['bound-tail'] if case['L'][0] in ('bt', 'btc', 'btn') else []), 'note': desc}


def run_filter(drv, case):
    m = drv.m
    env = B.Env(drv, first_id=10)
    f = inst(m, env, case['F'], 'F')
    l = inst(m, env, case['L'], 'L')
    sub = ref_sub(env)
    elems = elements(l, sub)
    t = env.via_chain(l, case['chain'])
    out = env.var('$Out')
    kb = drv.kb([])
    before = drv.dumpss(env.ss)
    pred = case['fam']
    desc = case['id']
    try:
        r1, r2 = B.run_goal(drv, kb, ('gb', pred, (f, t, out)), env.ss)
    except ScenarioEnd as e:
        raise Violation('%s-%s' % (pred, e.why[0]), '%s: %s' % (desc, e.why[1]))
    af = build_pterm(f)
    keep = []
    for e in elems:
        try:
            ok = R.unify(m, af, e, sub) is not None
        except R.OccursCheck:
            return {'tags': [], 'nontrivial': False}
        if ok == (pred == 'include'): keep.append(e)
    if r1.h is None: raise Violation(pred + '-fails', desc + ': the goal fails')
    if r2.h is not None: raise Violation('more-than-once:' + pred, desc + ': a second answer')
    got, after = out_value(drv, r1, out, desc)
    bad = R.has_bad(got)
    if bad: raise Violation(pred + '-ill-formed', '%s: Out is ill-formed (%s)' % (desc, bad))
    isub = R.impl_sub(after)
    want = R.resolve_impl(('lst', tuple(keep), None), isub)
    if not R.alpha_eq(m, got, want, {}, {}) :
        raise Violation(pred + '-wrong', '%s: Out = %s, expected %s' % (desc, R.show(got), R.show(want)))
    only_out_bound(m, before, after, out, desc, pred)
    tags = [pred]
    if case['L'][0] in ('bt', 'btc', 'btn'): tags.append('bound-tail')
    if U.has(case['F'], 'v') or case['F'][0] == 'vb': tags.append('filter-with-variable')
    return {'tags': tags, 'note': desc}


def norm(p):
    if p[0] == 'atom' and not isinstance(p[1], str) and all(isinstance(x, str) for x in p[1]): return ('atom', ''.join(p[1]))
    return p


def run_functor(drv, case):
    m = drv.m
    env = B.Env(drv, first_id=10)
    name = B.sym_atom(m, 'fn', 2, lo=97, hi=0x7ff)       # letters and everything up to two-byte characters (no `*`)
    args = tuple(('atom', 'a%d' % i) for i in range(case['arity']))
    c = ('cplx', (name,) + args)
    ct = env.via_chain(c, case['chain'])
    pat = case['pat']
    out = env.var('$F')
    expect_ok, expect_bind = True, None
    n0, n1 = list(name[1])[0], list(name[1])[1]
    if pat == 'exact': p = name
    elif pat == 'other': p = ('atom', tuple(name[1]) + ('z',)) if not isinstance(name[1], str) else ('atom', name[1] + 'z'); expect_ok = False
    elif pat == 'prefix': p = ('atom', (n0, '*')) if not isinstance(n0, str) or True else None
    elif pat == 'prefix-miss':
        q = B.sym_char(m, 'pm', 97, 0x7ff)
        if R.eq(m, q, n0): raise PathInfeasible()
        p = ('atom', (q, '*')); expect_ok = False
    elif pat == 'prefix2': p = ('atom', (n0, n1, '*'))
    elif pat == 'prefix2-miss':
        q = B.sym_char(m, 'pm', 97, 0x7ff)
        if R.eq(m, q, n1): raise PathInfeasible()
        p = ('atom', (n0, q, '*')); expect_ok = False
    elif pat == 'star-only': p = ('atom', '*')
    elif pat == 'var': p = out; expect_bind = name
    elif pat == 'boundvar': env.bind(out, name); p = out
    elif pat == 'int': p = ('int', 1); expect_ok = False
    # the pattern given through a variable that is already bound: the same outcome as the pattern written in place
    elif pat == 'bound-prefix': env.bind(out, norm(('atom', (n0, '*')))); p = out
    elif pat == 'bound-star': env.bind(out, ('atom', '*')); p = out
    elif pat == 'bound-other': env.bind(out, norm(('atom', tuple(name[1]) + ('z',)))); p = out; expect_ok = False
    elif pat == 'bound-int': env.bind(out, ('int', 1)); p = out; expect_ok = False
    elif pat == 'bound-prefix-miss':
        q = B.sym_char(m, 'pm', 97, 0x7ff)
        if R.eq(m, q, n0): raise PathInfeasible()
        env.bind(out, norm(('atom', (q, '*')))); p = out; expect_ok = False
    if p[0] == 'atom' and not isinstance(p[1], str) and all(isinstance(x, str) for x in p[1]): p = ('atom', ''.join(p[1]))
    ar = env.var('$A')
    if case['nargs'] == 3 and case['chain'] == 1 and pat in ('exact', 'prefix', 'var'):
        env.bind(ar, ('int', case['arity']))         # the arity through a bound variable
    terms = (ct, p) if case['nargs'] == 2 else (ct, p, ar)
    kb = drv.kb([])
    before = drv.dumpss(env.ss)
    desc = case['id']
    r1, r2 = B.run_goal(drv, kb, ('gb', 'functor', terms), env.ss)
    if (r1.h is not None) != expect_ok:
        raise Violation('functor-outcome:' + pat, '%s: the goal %s' % (desc, 'succeeds' if r1.h is not None else 'fails'))
    if r2.h is not None: raise Violation('more-than-once:functor', desc + ': a second answer')
    if r1.h is not None:
        after = drv.dumpss(r1)
        isub = R.impl_sub(after)
        if expect_bind is not None:
            got = R.resolve_impl(out, isub)
            if not R.alpha_eq(m, got, expect_bind, {}, {}):
                raise Violation('functor-wrong-name', '%s: $F = %s' % (desc, R.show(got)))
        if case['nargs'] == 3:
            got = R.resolve_impl(ar, isub)
            if got[0] != 'int' or not R.eq(m, got[1], case['arity']):
                raise Violation('functor-wrong-arity', '%s: $A = %s, the arity is %d' % (desc, R.show(got), case['arity']))
        for i, e in enumerate(after):
            b = before[i] if i < len(before) else None
            if i in (out[1], ar[1]): continue
            if not struct_eq(m, b, e): raise Violation('functor-binds-other', '%s: variable %d changed' % (desc, i))
        # a wrong arity must fail
        if case['nargs'] == 3:
            rw, _ = B.run_goal(drv, kb, ('gb', 'functor', (ct, p, ('int', case['arity'] + 1))), env.ss)
            if rw.h is not None: raise Violation('functor-wrong-arity', desc + ': succeeds with a wrong arity')
    tags = ['functor'] + (['prefix-pattern'] if 'prefix' in pat or 'star' in pat else [])
    return {'tags': tags, 'note': desc}


def run_join(drv, case):
    m = drv.m
    env = B.Env(drv, first_id=10)
    n = case['n']
    words = []
    for i in range(n):
        k = m.choose(len(WORDS))
        words.append(WORDS[k])
    atoms = [('atom', w) for w in words]
    sh = case['shape']
    if sh == 'direct': args = atoms
    elif sh == 'list': args = [('plist', tuple(atoms), None)]
    elif sh == 'vars': args = [env.via_chain(a, 1 + (i % 2)) for i, a in enumerate(atoms)]
    elif sh == 'listvars': args = [('plist', tuple(env.via_chain(a, 1) for a in atoms), None)]
    else:
        args = [atoms[0]] + ([env.via_chain(('plist', tuple(atoms[1:]), None), 1)] if n > 1 else [])
    # reference: single spaces, punctuation attached to the previous word
    text = ''
    for i, w in enumerate(words):
        if w in ',.?!' or i == 0: text += w
        else: text += ' ' + w
    res = drv.evalf('join', [drv.term(a) for a in args], env.ss)
    desc = '%s: join of %r' % (case['id'], words)
    if res != ('atom', text):
        raise Violation('join-wrong', '%s gives %s, expected %r' % (desc, R.show(res), text))
    # and through unification with a variable
    x = env.var('$J')
    kb = drv.kb([])
    r1, r2 = B.run_goal(drv, kb, ('gb', 'unify', (x, ('func', 'join', tuple(args)))), env.ss)
    if r1.h is None: raise Violation('join-unify-fails', desc + ': $J = join(...) fails')
    got = drv.resolve(drv.term(x), r1)
    if got != ('atom', text): raise Violation('join-wrong', '%s binds $J to %s, expected %r' % (desc, R.show(got), text))
    tags = ['join'] + (['punctuation'] if any(w in ',.?!' for w in words) else [])
    return {'tags': tags, 'note': desc}


def run(drv, case):
    f = case['fam']
    if f == 'rule': return run_rule(drv, case)
    if f == 'count': return run_count(drv, case)
    if f in ('include', 'exclude'): return run_filter(drv, case)
    if f == 'functor': return run_functor(drv, case)
    return run_join(drv, case)
