"""Hand-written models of the std functions the suiron MIR calls (PROTOTYPE)."""
import re, math
import z3
from .machine import (model, Machine, Cell, Agg, Ptr, SliceRef, VecV, ArrV, RStr, StrRef, RcV, RefCellV, BorrowV,
                    MapV, IterV, FmtArg, FmtArgs, Formatter, Closure, FnItem, RustPanic, Unsupported, Sym,
                    UNIT, UNINIT, copy_val, seq_cells, type_head, to_z3, wrap_int, INT_BITS)


class SymText:
    """the Display text of a symbolic number, kept as one opaque element of a string"""
    __slots__ = ('sym',)
    def __init__(self, sym): self.sym = sym
    def __repr__(self): return '<text of %r>' % (self.sym,)


def some(v): return Agg('Option', 'Some', 1, [v])
def none(): return Agg('Option', 'None', 0, [])
def ok(v): return Agg('Result', 'Ok', 0, [v])
def err(v): return Agg('Result', 'Err', 1, [v])
def ordering(c): return Agg('Ordering', ['Less', 'Equal', 'Greater'][c + 1], c, [])


def deref(v):
    """follow one reference level to the value"""
    if isinstance(v, Ptr): return v.cell.v
    if isinstance(v, RcV): return v.cell.v
    if isinstance(v, StrRef): return v.s
    if isinstance(v, SliceRef): return v
    raise Unsupported(f'deref {v!r}')


def as_rstr(v):
    """&String | &str | &&str ... -> RStr"""
    while True:
        if isinstance(v, RStr): return v
        if isinstance(v, StrRef): return v.s
        if isinstance(v, (Ptr, RcV)): v = v.cell.v; continue
        raise Unsupported(f'as_rstr {v!r}')


# ------------------------------------------------------------------ equality / clone / ordering (generic)

def values_eq(m, a, b):
    """structural PartialEq; returns python bool (forks on symbolic)."""
    if isinstance(a, (Ptr, RcV)) and isinstance(b, (Ptr, RcV)):
        return values_eq(m, a.cell.v, b.cell.v)
    if isinstance(a, StrRef): a = a.s
    if isinstance(b, StrRef): b = b.s
    # &str == String, &&str == &str, ...: strip reference levels on either side of a string comparison
    if isinstance(a, RStr) or isinstance(b, RStr):
        while isinstance(a, (Ptr, RcV, StrRef)): a = a.s if isinstance(a, StrRef) else a.cell.v
        while isinstance(b, (Ptr, RcV, StrRef)): b = b.s if isinstance(b, StrRef) else b.cell.v
    if isinstance(a, RStr) and isinstance(b, RStr):
        return str_eq(m, a, b)
    if isinstance(a, Agg) and isinstance(b, Agg):
        n = m.impl_index.get((a.ty, 'PartialEq', 'eq')) if a.ty else None
        if n:
            r = m.call(m.funcs[n], [Ptr(Cell(a)), Ptr(Cell(b))])
            return m.branch(r)
        if a.vidx != b.vidx or len(a.fields) != len(b.fields): return False
        return all(values_eq(m, x.v, y.v) for x, y in zip(a.fields, b.fields))
    if isinstance(a, (VecV, ArrV, SliceRef)) and isinstance(b, (VecV, ArrV, SliceRef)):
        ca, cb = seq_cells(a), seq_cells(b)
        if len(ca) != len(cb): return False
        for x, y in zip(ca, cb):
            if not values_eq(m, x.v, y.v): return False
        return True
    if isinstance(a, Sym) or isinstance(b, Sym):
        return m.branch(m.binop('Eq', a, b))
    if isinstance(a, float) and isinstance(b, float):
        return a == b
    if a is UNIT and b is UNIT: return True
    if isinstance(a, (int, str, bool, float)) and isinstance(b, (int, str, bool, float)):
        return a == b
    raise Unsupported(f'values_eq {a!r} {b!r}')


def str_eq(m, a, b):
    if any(isinstance(c, SymText) for c in a.chars) or any(isinstance(c, SymText) for c in b.chars):
        raise Unsupported('comparison of a string holding the text of a symbolic number')
    if len(a.chars) != len(b.chars): return False
    for x, y in zip(a.chars, b.chars):
        if isinstance(x, str) and isinstance(y, str):
            if x != y: return False
        else:
            if not m.branch(m.binop('Eq', x, y)): return False
    return True


def str_cmp(m, a, b):
    for x, y in zip(a.chars, b.chars):
        # NOTE: String ordering is by UTF-8 bytes == by code point
        if isinstance(x, str) and isinstance(y, str):
            if x != y: return -1 if x < y else 1
        else:
            if m.branch(m.binop('Lt', x, y)): return -1
            if m.branch(m.binop('Gt', x, y)): return 1
    la, lb = len(a.chars), len(b.chars)
    return -1 if la < lb else (1 if la > lb else 0)


def deep_clone(m, v):
    if isinstance(v, Agg):
        n = m.impl_index.get((v.ty, 'Clone', 'clone')) if v.ty else None
        if n:
            return m.call(m.funcs[n], [Ptr(Cell(v))])
        return Agg(v.ty, v.variant, v.vidx, [deep_clone(m, c.v) for c in v.fields])
    if isinstance(v, VecV): return VecV([Cell(deep_clone(m, c.v)) for c in v.items])
    if isinstance(v, ArrV): return ArrV([deep_clone(m, c.v) for c in v.items])
    if isinstance(v, RStr): return RStr(v.chars)
    if isinstance(v, RcV): return v       # Rc::clone shares
    if isinstance(v, Ptr):
        if v.kind == 'box': return Ptr(Cell(deep_clone(m, v.cell.v)), 'box')
        return v                          # &T is Copy
    if isinstance(v, (StrRef, SliceRef)): return v
    if isinstance(v, MapV):
        r = MapV()
        r.e = [(RStr(k.chars), Cell(deep_clone(m, c.v))) for k, c in v.e]
        return r
    if isinstance(v, (int, float, str, bool, Sym)) or v is UNIT: return v
    raise Unsupported(f'deep_clone {v!r}')


@model(re.compile(r'^<.* as PartialEq>::eq$'))
def m_eq(m, callee, a):
    return values_eq(m, deref(a[0]), deref(a[1]))


@model(re.compile(r'^<.* as PartialEq>::ne$'))
def m_ne(m, callee, a):
    return not values_eq(m, deref(a[0]), deref(a[1]))


@model(re.compile(r'^<.* as Clone>::clone$'))
def m_clone(m, callee, a):
    return deep_clone(m, deref(a[0])) if not isinstance(a[0], RcV) else a[0]


@model(re.compile(r'^<.* as Deref>::deref$'), re.compile(r'^<.* as DerefMut>::deref_mut$'),
       re.compile(r'^<.* as AsRef>::as_ref$'), re.compile(r'^<.* as Borrow>::borrow$'))
def m_deref(m, callee, a):
    v = deref(a[0])           # the smart pointer / String / Vec itself
    if isinstance(v, RcV): return Ptr(v.cell)
    if isinstance(v, Ptr): return Ptr(v.cell)          # Box
    if isinstance(v, BorrowV):
        if not v.live: raise Unsupported('use of dropped borrow')
        return Ptr(v.rc.cell)
    if isinstance(v, RStr): return StrRef(v)
    if isinstance(v, VecV): return SliceRef(v.items, 0, len(v.items))
    if isinstance(v, (StrRef, SliceRef)): return v
    raise Unsupported(f'deref model {callee} {v!r}')


@model(re.compile(r'^<.* as Ord>::cmp$'), re.compile(r'^<.* as PartialOrd>::partial_cmp$'))
def m_cmp(m, callee, a):
    x, y = deref(a[0]), deref(a[1])
    while isinstance(x, (Ptr, RcV)): x = x.cell.v        # &&String, &Rc<..>: the comparison is on the pointee
    while isinstance(y, (Ptr, RcV)): y = y.cell.v
    if isinstance(x, (RStr, StrRef)):
        r = ordering(str_cmp(m, as_rstr(x), as_rstr(y)))
    else:
        if callee.endswith('partial_cmp'):
            # f64: no ordering when either side is NaN
            for v in (x, y):
                if isinstance(v, float) and v != v: return none()
                if isinstance(v, Sym) and v.ty == 'f64' and m.branch(Sym(z3.fpIsNaN(v.e), 'bool')): return none()
        if m.branch(m.binop('Lt', x, y)): r = ordering(-1)
        elif m.branch(m.binop('Gt', x, y)): r = ordering(1)
        else: r = ordering(0)
    return some(r) if callee.endswith('partial_cmp') else r


# ------------------------------------------------------------------ Rc / Box / RefCell

@model('Rc::new')
def m_rc_new(m, c, a): return RcV(Cell(a[0]))


@model('Box::new')
def m_box_new(m, c, a): return Ptr(Cell(a[0]), 'box')


@model('Box::new_uninit')
def m_box_new_uninit(m, c, a): return Ptr(Cell(UNINIT), 'box')


@model('boxed::box_assume_init_into_vec_unsafe')
def m_box_into_vec(m, c, a):
    arr = a[0].cell.v
    return VecV(list(arr.items))


@model('RefCell::new')
def m_refcell_new(m, c, a): return RefCellV(a[0])


@model('RefCell::borrow_mut')
def m_borrow_mut(m, c, a):
    rc = deref(a[0])
    if rc.state != 0: raise RustPanic('already borrowed: BorrowMutError')
    rc.state = -1
    return BorrowV(rc, True)


@model('RefCell::borrow')
def m_borrow(m, c, a):
    rc = deref(a[0])
    if rc.state < 0: raise RustPanic('already mutably borrowed: BorrowError')
    rc.state += 1
    return BorrowV(rc, False)


@model('RefCell::as_ptr')
def m_as_ptr(m, c, a):
    return Ptr(deref(a[0]).cell, 'raw')


# ------------------------------------------------------------------ Vec / slices

@model('Vec::new')
def m_vec_new(m, c, a): return VecV()


@model('Vec::with_capacity')
def m_vec_wc(m, c, a): return VecV()


@model('Vec::push')
def m_vec_push(m, c, a):
    deref(a[0]).items.append(Cell(a[1])); return UNIT


@model('Vec::len', '[]::len')
def m_vec_len(m, c, a): return len(seq_cells(deref(a[0])))


@model('Vec::remove')
def m_vec_remove(m, c, a):
    v = deref(a[0]); i = m.concretize(a[1])
    if i >= len(v.items): raise RustPanic('removal index out of bounds')
    return v.items.pop(i).v


@model('Vec::pop')
def m_vec_pop(m, c, a):
    v = deref(a[0])
    return some(v.items.pop().v) if v.items else none()


@model('Vec::append')
def m_vec_append(m, c, a):
    v, w = deref(a[0]), deref(a[1])
    v.items.extend(w.items); w.items = []
    return UNIT


@model('vec::from_elem')
def m_from_elem(m, c, a):
    n = m.concretize(a[1])
    return VecV([Cell(deep_clone(m, a[0])) for _ in range(n)])


@model('[]::to_vec')
def m_to_vec(m, c, a):
    return VecV([Cell(deep_clone(m, x.v)) for x in seq_cells(deref(a[0]) if not isinstance(a[0], SliceRef) else a[0])])


@model('<Vec as Index>::index', '<Vec as IndexMut>::index_mut', '<[] as Index>::index')
def m_vec_index(m, callee, a):
    v = a[0] if isinstance(a[0], SliceRef) else deref(a[0])
    items = seq_cells(v)
    idx = a[1]
    if isinstance(idx, Agg):      # Range / RangeFrom / RangeTo ...
        nm = idx.ty
        if nm == 'Range': lo, hi = m.concretize(idx.fields[0].v), m.concretize(idx.fields[1].v)
        elif nm == 'RangeFrom': lo, hi = m.concretize(idx.fields[0].v), len(items)
        elif nm == 'RangeTo': lo, hi = 0, m.concretize(idx.fields[0].v)
        elif nm == 'RangeFull': lo, hi = 0, len(items)
        else: raise Unsupported('index by ' + repr(idx))
        if lo > hi: raise RustPanic(f'slice index starts at {lo} but ends at {hi}')
        if hi > len(items): raise RustPanic(f'range end index {hi} out of range for slice of length {len(items)}')
        if isinstance(v, SliceRef): return SliceRef(v.items, v.lo + lo, v.lo + hi)
        return SliceRef(items, lo, hi)
    i = m.concretize(idx)
    if i < 0 or i >= len(items):
        raise RustPanic(f'index out of bounds: the len is {len(items)} but the index is {i}')
    return Ptr(items[i])


@model('[]::iter', 'Vec::iter')
def m_slice_iter(m, c, a):
    v = a[0] if isinstance(a[0], SliceRef) else deref(a[0])
    return IterV('ref', list(seq_cells(v)))


@model(re.compile(r'^<.* as IntoIterator>::into_iter$'))
def m_into_iter(m, callee, a):
    v = a[0]
    if isinstance(v, IterV): return v
    if isinstance(v, VecV): return IterV('own', list(v.items))
    if isinstance(v, Agg) and v.ty == 'Range':
        return IterV('range', None, [v.fields[0].v, v.fields[1].v])
    if isinstance(v, (Ptr,)):
        return IterV('ref', list(seq_cells(v.cell.v)))
    if isinstance(v, SliceRef): return IterV('ref', list(v.cells()))
    raise Unsupported(f'into_iter {v!r}')


@model(re.compile(r'^<.* as Iterator>::next$'))
def m_iter_next(m, callee, a):
    it = deref(a[0])
    if it.kind == 'range':
        lo, hi = it.extra
        if m.branch(m.binop('Lt', lo, hi)):
            it.extra[0] = lo + 1 if not isinstance(lo, Sym) else Sym(lo.e + 1, lo.ty)
            return some(lo)
        return none()
    if it.kind == 'lazy':
        # map / filter / filter_map / enumerate over another iterator: the closure runs when the element is asked for, as in Rust
        x = it.extra; op = x['op']
        while True:
            nx = m_iter_next(m, '', [Ptr(Cell(x['src']))])
            if nx.vidx == 0: return none()
            v = nx.fields[0].v
            if op == 'map': return some(call_closure(m, x['f'], [v]))
            if op == 'enumerate':
                x['n'] += 1; return some(Agg(None, None, None, [x['n'] - 1, v]))
            if op == 'filter':
                if m.branch(call_closure(m, x['f'], [Ptr(Cell(v))])): return some(v)
                continue
            if op == 'filter_map':
                r = call_closure(m, x['f'], [v])
                if r.vidx == 1: return r
                continue
            raise Unsupported('lazy iterator op ' + op)
    if it.kind == 'chars':
        if it.pos < len(it.cells):
            c = it.cells[it.pos]; it.pos += 1
            if it.extra == 'enumerate': return some(Agg(None, None, None, [it.pos - 1, c]))
            return some(c)
        return none()
    if it.pos >= len(it.cells): return none()
    c = it.cells[it.pos]; it.pos += 1
    if it.kind == 'ref': r = Ptr(c)
    elif it.kind in ('own', 'lines', 'mapiter'): r = c.v
    else: raise Unsupported('iter kind ' + it.kind)
    if it.extra == 'enumerate':
        return some(Agg(None, None, None, [it.pos - 1, r]))
    return some(r)


@model(re.compile(r'^<.* as Iterator>::enumerate$'))
def m_enumerate(m, callee, a):
    it = a[0]
    if not isinstance(it, IterV): it = m_into_iter(m, '', [it])
    if it.kind in ('lazy', 'range'): return IterV('lazy', None, {'op': 'enumerate', 'src': it, 'n': 0})
    it.extra = 'enumerate'; return it


@model(re.compile(r'^<.* as Iterator>::fold$'))
def m_fold(m, callee, a):
    it, acc, f = a
    while True:
        nx = m_iter_next(m, '', [Ptr(Cell(it))])
        if nx.vidx == 0: return acc
        acc = call_closure(m, f, [acc, nx.fields[0].v])


def call_closure(m, f, args):
    if isinstance(f, Closure):
        # MIR closure fn name: "<path>::{closure#N}" ; find by span
        span = re.match(r'\{closure@(.*)\}', f.name).group(1)
        fn = closure_fn(m, span)
        # first arg: &closure / &mut closure / closure by value depending on kind; we pass a ref
        self_ty = fn.arg_tys[0]
        selfv = Ptr(Cell(f)) if self_ty.startswith('&') else f
        packed = args
        return m.call(fn, [selfv] + packed)
    if isinstance(f, FnItem): return m.call_value(f, args)
    raise Unsupported(f'call_closure {f!r}')


def closure_fn(m, span):
    for n, fn in m.funcs.items():
        if '{closure#' in n and fn.kind == 'fn' and fn.arg_tys and span in fn.arg_tys[0]:
            return fn
    raise Unsupported('closure fn for ' + span)


# ------------------------------------------------------------------ Option helpers

@model('Option::is_some')
def m_is_some(m, c, a): return deref(a[0]).vidx == 1


@model('Option::is_none')
def m_is_none(m, c, a): return deref(a[0]).vidx == 0


@model('Option::unwrap')
def m_unwrap(m, c, a):
    if a[0].vidx == 0: raise RustPanic('called `Option::unwrap()` on a `None` value')
    return a[0].fields[0].v


@model('Result::unwrap')
def m_runwrap(m, c, a):
    if a[0].vidx == 1: raise RustPanic('called `Result::unwrap()` on an `Err` value')
    return a[0].fields[0].v


@model('<Option as Try>::branch')
def m_opt_branch(m, c, a):
    o = a[0]
    if o.vidx == 1: return Agg('ControlFlow', 'Continue', 0, [o.fields[0].v])
    return Agg('ControlFlow', 'Break', 1, [none()])


@model('<Result as Try>::branch')
def m_res_branch(m, c, a):
    o = a[0]
    if o.vidx == 0: return Agg('ControlFlow', 'Continue', 0, [o.fields[0].v])
    return Agg('ControlFlow', 'Break', 1, [err(o.fields[0].v)])


@model('<Option as FromResidual>::from_residual')
def m_opt_fr(m, c, a): return none()


@model('<Result as FromResidual>::from_residual')
def m_res_fr(m, c, a): return err(a[0].fields[0].v)


# ------------------------------------------------------------------ strings

@model('<String as ToString>::to_string', '<str as ToString>::to_string', 'String::clone', '<str as ToOwned>::to_owned',
       '<String as From>::from', 'str::to_string', 'str::to_owned')
def m_to_string(m, c, a): return RStr(as_rstr(a[0]).chars)


@model(re.compile(r'^<.* as ToString>::to_string$'))
def m_to_string_any(m, callee, a):
    return RStr(render_display(m, a[0]))


@model('String::new')
def m_string_new(m, c, a): return RStr([])


@model('String::as_str', 'String::as_mut_str')
def m_as_str(m, c, a): return StrRef(as_rstr(a[0]))


@model('String::len', 'str::len')
def m_str_len(m, c, a):
    s = as_rstr(a[0])
    return sum(char_utf8_len(m, ch) for ch in s.chars)


@model('String::push')
def m_string_push(m, c, a): as_rstr(a[0]).chars.append(a[1]); return UNIT


@model('String::push_str', '<String as AddAssign>::add_assign')
def m_string_push_str(m, c, a): as_rstr(a[0]).chars.extend(as_rstr(a[1]).chars); return UNIT


@model('<String as Add>::add')
def m_string_add(m, c, a):
    s = a[0]; s.chars.extend(as_rstr(a[1]).chars); return s


def _char_test(m, pat):
    """a str pattern that is a function / closure over char -> python predicate; else None"""
    q = pat
    while isinstance(q, Ptr) and isinstance(q.cell.v, (FnItem, Closure)): q = q.cell.v
    if isinstance(q, (FnItem, Closure)):
        return lambda ch: bool(m.branch(call_closure(m, q, [ch])))
    return None


@model('str::starts_with')
def m_starts_with(m, c, a):
    s = as_rstr(a[0])
    t = _char_test(m, a[1])
    if t is not None: return bool(s.chars) and t(s.chars[0])
    p = _pattern(m, a[1])
    if len(p) > len(s.chars): return False
    return str_eq(m, RStr(s.chars[:len(p)]), RStr(p))


@model('str::eq', 'String::eq')
def m_str_eq2(m, c, a): return str_eq(m, as_rstr(a[0]), as_rstr(a[1]))


@model('str::chars')
def m_chars(m, c, a): return IterV('chars', list(as_rstr(a[0]).chars))


@model(re.compile(r'^<.* as Iterator>::collect$'))
def m_collect(m, callee, a):
    it = a[0]
    target = callee[callee.rindex('::<') + 3:-1] if '::<' in callee else ''
    head = target.replace('std::result::', '').replace('std::option::', '').replace('core::result::', '').replace('core::option::', '')
    if head.startswith(('Result<', 'Option<')):
        # stops at the first Err / None, like the std implementation (later elements are not asked for)
        is_res = head.startswith('Result<'); vals = []
        while True:
            nx = m_iter_next(m, '', [Ptr(Cell(it))])
            if nx.vidx == 0: break
            v = nx.fields[0].v
            good = (v.vidx == 0) if is_res else (v.vidx == 1)
            if not good: return v
            vals.append(v.fields[0].v)
        inner = head[7:]
        if inner.startswith('String') or inner.startswith('std::string::String'):
            out = []
            for v in vals:
                if isinstance(v, (str, Sym)): out.append(v)
                else: out.extend(as_rstr(v).chars)
            body = RStr(out)
        else: body = VecV([Cell(v) for v in vals])
        return ok(body) if is_res else some(body)
    if it.kind in ('lazy', 'range'):
        it = IterV('own', [Cell(v) for v in _drain(m, it)])
    if it.kind == 'chars':
        items = it.cells[it.pos:]
        if 'String' in target: return RStr(items)
        return VecV([Cell(x) for x in items])
    if it.kind == 'ref':
        vals = [c.v for c in it.cells[it.pos:]]
        if 'String' in target: return RStr(vals)        # Iter<char>.collect::<String>()
        return VecV([Cell(Ptr(c)) for c in it.cells[it.pos:]])
    if it.kind in ('own', 'lines', 'mapiter'):
        vals = [c.v for c in it.cells[it.pos:]]
        if 'String' in target and 'Vec' not in target:
            out = []
            for v in vals:
                if isinstance(v, (str, Sym)): out.append(v)
                else: out.extend(as_rstr(v).chars)
            return RStr(out)
        return VecV([Cell(v) for v in vals])
    raise Unsupported('collect ' + callee)


# ------------------------------------------------------------------ HashMap

def map_find(m, mp, k):
    ks = as_rstr(k)
    for i, (kk, c) in enumerate(mp.e):
        if str_eq(m, kk, ks): return i
    return -1


@model('HashMap::new')
def m_map_new(m, c, a): return MapV()


@model('HashMap::get', 'HashMap::get_mut')
def m_map_get(m, c, a):
    mp = deref(a[0]); i = map_find(m, mp, a[1])
    return some(Ptr(mp.e[i][1])) if i >= 0 else none()


@model('HashMap::insert')
def m_map_insert(m, c, a):
    mp = deref(a[0]); i = map_find(m, mp, a[1])
    if i >= 0:
        old = mp.e[i][1].v
        mp.e[i][1].v = a[2]
        return some(old)
    mp.e.append((RStr(as_rstr(a[1]).chars), Cell(a[2])))
    return none()


# ------------------------------------------------------------------ fmt

@model('Argument::new_display', 'Argument::new_debug')
def m_new_display(m, callee, a):
    ty = callee[callee.rindex('::<') + 3:-1]
    return FmtArg('display' if 'display' in callee else 'debug', a[0], ty)


@model('Arguments::new')
def m_args_new(m, c, a):
    tmpl = deref(a[0]); args = deref(a[1])
    return FmtArgs([x.v for x in seq_cells(tmpl)], [x.v for x in seq_cells(args)])


@model('Arguments::from_str')
def m_args_from_str(m, c, a):
    return FmtArgs(None, as_rstr(a[0]))


def render_args(m, fa):
    if fa.template is None: return list(fa.args.chars)
    t = fa.template; out = []; i = 0; argi = 0
    while True:
        n = t[i]; i += 1
        if n == 0: break
        if n < 0x80:
            out.extend(bytes(t[i:i + n]).decode('utf-8')); i += n
        elif n == 0x80:
            ln = t[i] | (t[i + 1] << 8); i += 2
            out.extend(bytes(t[i:i + ln]).decode('utf-8')); i += ln
        elif n == 0xC0:
            arg = fa.args[argi]; argi += 1
            out.extend(render_display(m, arg.ptr) if arg.kind == 'display' else render_debug(m, arg.ptr))
        else:
            raise Unsupported('format spec with options')
    return out


def rust_f64(x):
    if x != x: return 'NaN'
    if x == float('inf'): return 'inf'
    if x == float('-inf'): return '-inf'
    if x == int(x) and abs(x) < 1e16:
        s = repr(float(x))
        if 'e' in s or 'E' in s: return '%d' % int(x)
        return s[:-2] if s.endswith('.0') else s
    s = repr(x)
    if 'e' in s:
        from decimal import Decimal
        return format(Decimal(s), 'f')
    return s


def rust_f64_debug(x):
    """{:?} of an f64: at least one fractional digit; exponent form below 1e-4 and from 1e16 (the thresholds Python's repr uses too)"""
    if x != x: return 'NaN'
    if x in (float('inf'), float('-inf')): return 'inf' if x > 0 else '-inf'
    s = repr(float(x))
    if 'e' in s:
        mant, ex = s.split('e')
        if mant.endswith('.0'): mant = mant[:-2]
        return '%se%d' % (mant, int(ex))
    return s


def render_debug(m, v):
    while isinstance(v, (Ptr, RcV)): v = v.cell.v
    if isinstance(v, StrRef): v = v.s
    if isinstance(v, float): return list(rust_f64_debug(v))
    if isinstance(v, (bool, int)): return render_display(m, v)
    if isinstance(v, Sym) and v.ty != 'char' and not v.ty.startswith('f'): return [SymText(v)]
    if isinstance(v, RStr) and all(isinstance(c, str) and (c.isalnum() or c in ' _$.,()[]|-+*/=<>:;!?') for c in v.chars):
        return ['"'] + list(v.chars) + ['"']
    raise Unsupported('debug formatting of %r' % (type(v).__name__,))


def render_display(m, v):
    """v: reference(s) to a value; returns list of chars"""
    while isinstance(v, (Ptr, RcV)): v = v.cell.v
    if isinstance(v, StrRef): v = v.s
    if isinstance(v, RStr): return list(v.chars)
    if isinstance(v, bool): return list('true' if v else 'false')
    if isinstance(v, int): return list(str(v))
    if isinstance(v, float): return list(rust_f64(v))
    if isinstance(v, str): return [v]
    if isinstance(v, Sym):
        if v.ty == 'char': return [v]
        return [SymText(v)]          # the decimal text of a symbolic number: one opaque token
    if isinstance(v, Agg) and v.ty:
        n = m.impl_index.get((v.ty, 'Display', 'fmt'))
        if n:
            f = Formatter()
            r = m.call(m.funcs[n], [Ptr(Cell(v)), Ptr(Cell(f))])
            return f.out
    raise Unsupported(f'render_display {v!r}')


@model('fmt::format', 'format')
def m_format(m, c, a): return RStr(render_args(m, a[0]))


@model('must_use')
def m_must_use(m, c, a): return a[0]


@model('Formatter::write_fmt')
def m_write_fmt(m, c, a):
    deref(a[0]).out.extend(render_args(m, a[1])); return ok(UNIT)


@model('Formatter::write_str')
def m_write_str(m, c, a):
    deref(a[0]).out.extend(as_rstr(a[1]).chars); return ok(UNIT)


@model(re.compile(r'^<.* as Display>::fmt$'))
def m_display_fmt(m, callee, a):
    deref(a[1]).out.extend(render_display(m, a[0])); return ok(UNIT)


@model('io::_print')
def m_print(m, c, a):
    m.stdout.append(''.join(x if isinstance(x, str) else '?' for x in render_args(m, a[0]))); return UNIT


@model('rt::panic_fmt')
def m_panic_fmt(m, c, a):
    raise RustPanic(''.join(x if isinstance(x, str) else '?' for x in render_args(m, a[0])))


@model('rt::panic_display')
def m_panic_display(m, c, a):
    raise RustPanic(''.join(render_display(m, a[0])))


@model('panicking::panic')
def m_panic(m, c, a):
    raise RustPanic(as_rstr(a[0]).concrete())


# ------------------------------------------------------------------ misc

@model('Instant::now')
def m_now(m, c, a): return Agg('Instant', None, None, [0])


# ------------------------------------------------------------------ more string models (parsers)

WS = set(' \t\n\r\x0b\x0c\x85\xa0                　')


def char_in(m, ch, charset):
    if isinstance(ch, str): return ch in charset
    conds = [ch.e == ord(c) for c in charset if ord(c) < 128]
    return m.branch(Sym(z3.Or(conds), 'bool'))


@model('str::trim')
def m_trim(m, c, a):
    s = as_rstr(a[0]); ch = s.chars
    i, j = 0, len(ch)
    while i < j and char_in(m, ch[i], WS): i += 1
    while j > i and char_in(m, ch[j - 1], WS): j -= 1
    return StrRef(RStr(ch[i:j]))


def concretize_str(m, s):
    out = []
    for ch in s.chars:
        if isinstance(ch, str): out.append(ch)
        else: out.append(chr(m.concretize(ch)))
    return ''.join(out)


@model('str::parse')
def m_parse(m, callee, a):
    ty = callee[callee.rindex('::<') + 3:-1]
    s = concretize_str(m, as_rstr(a[0]))
    if ty == 'i64' or ty == 'i32' or ty == 'usize':
        if re.fullmatch(r'[+-]?[0-9]+', s) and not (ty == 'usize' and s[0] == '-'):
            v = int(s)
            lo, hi = (-(1 << 63), (1 << 63) - 1) if ty == 'i64' else (-(1 << 31), (1 << 31) - 1) if ty == 'i32' else (0, (1 << 64) - 1)
            if lo <= v <= hi: return ok(v)
        return err(Agg('ParseIntError', None, None, []))
    if ty == 'f64':
        if re.fullmatch(r'[+-]?(inf|infinity|nan)', s, re.I) or \
           re.fullmatch(r'[+-]?([0-9]+\.?[0-9]*|\.[0-9]+)([eE][+-]?[0-9]+)?', s):
            return ok(float(s))
        return err(Agg('ParseFloatError', None, None, []))
    raise Unsupported('parse ' + ty)


@model('char::is_alphabetic')
def m_is_alpha(m, c, a):
    ch = a[0]
    if isinstance(ch, str): return ch.isalpha()
    e = ch.e
    return m.branch(Sym(z3.Or(z3.And(z3.UGE(e, 65), z3.ULE(e, 90)), z3.And(z3.UGE(e, 97), z3.ULE(e, 122))), 'bool'))


@model('<Chars as Iterator>::last')
def m_chars_last(m, c, a):
    it = a[0]
    return some(it.cells[-1]) if it.cells[it.pos:] else none()


@model('<str as Index>::index')
def m_str_index(m, c, a):
    s = as_rstr(a[0]); idx = a[1]
    # byte indices; only ASCII prefix supported
    def b2c(b):
        n = 0
        for k, ch in enumerate(s.chars):
            if n == b: return k
            n += char_utf8_len(m, ch)
            if n > b: raise RustPanic('byte index is not a char boundary')
        if n == b: return len(s.chars)
        raise RustPanic('byte index out of range')
    if idx.ty == 'RangeFrom': return StrRef(RStr(s.chars[b2c(m.concretize(idx.fields[0].v)):]))
    if idx.ty == 'Range': return StrRef(RStr(s.chars[b2c(m.concretize(idx.fields[0].v)):b2c(m.concretize(idx.fields[1].v))]))
    if idx.ty == 'RangeTo': return StrRef(RStr(s.chars[:b2c(m.concretize(idx.fields[0].v))]))
    if idx.ty == 'RangeFull': return StrRef(RStr(s.chars))
    if idx.ty == 'RangeInclusive': return StrRef(RStr(s.chars[b2c(m.concretize(idx.fields[0].v)):b2c(m.concretize(idx.fields[1].v) + 1)]))
    if idx.ty == 'RangeToInclusive': return StrRef(RStr(s.chars[:b2c(m.concretize(idx.fields[0].v) + 1)]))
    raise Unsupported('str index ' + repr(idx))


@model('String::pop')
def m_string_pop(m, c, a):
    s = as_rstr(a[0])
    return some(s.chars.pop()) if s.chars else none()


# ------------------------------------------------------------------ virtual files, HashMap::iter, sort (C21 probe)

@model('File::open')
def m_file_open(m, c, a):
    p = a[0]
    name = as_rstr(p).concrete()
    vfs = getattr(m, 'vfs', {})
    if name not in vfs: return err(Agg('IoError', None, None, [RStr('No such file')]))
    return ok(Agg('File', None, None, [RStr(vfs[name]) if isinstance(vfs[name], str) else vfs[name]]))


@model('BufReader::new')
def m_bufreader_new(m, c, a): return a[0]


@model('<BufReader as BufRead>::lines')
def m_lines(m, c, a):
    txt = a[0].fields[0].v
    lines, cur = [], []
    for ch in txt.chars:
        is_nl = (ch == '\n') if isinstance(ch, str) else m.branch(m.binop('Eq', ch, '\n'))
        if is_nl:
            if cur and isinstance(cur[-1], str) and cur[-1] == '\r': cur.pop()
            lines.append(RStr(cur)); cur = []
        else:
            cur.append(ch)
    if cur: lines.append(RStr(cur))
    return IterV('lines', [Cell(ok(l)) for l in lines])


@model('HashMap::iter')
def m_map_iter(m, c, a):
    mp = deref(a[0])
    return IterV('mapiter', [Cell(Agg(None, None, None, [Ptr(Cell(kv)), Ptr(cell)])) for kv, cell in mp.e])


@model('[]::sort_by', '[]::sort_unstable_by')
def m_sort_by(m, c, a):
    import functools
    v = a[0] if isinstance(a[0], SliceRef) else deref(a[0])
    cells = seq_cells(v)
    def cmpf(x, y):
        r = call_closure(m, a[1], [Ptr(Cell(x)), Ptr(Cell(y))])
        return r.vidx if isinstance(r.vidx, int) and r.ty == 'Ordering' else {'Less': -1, 'Equal': 0, 'Greater': 1}[r.variant]
    vals = sorted([x.v for x in cells], key=functools.cmp_to_key(cmpf))
    for cell, val in zip(cells, vals): cell.v = val
    return UNIT


@model('[]::sort')
def m_sort(m, c, a):
    v = a[0] if isinstance(a[0], SliceRef) else deref(a[0])
    cells = seq_cells(v)
    vals = sorted([x.v for x in cells], key=lambda s: as_rstr(s).concrete())
    for cell, val in zip(cells, vals): cell.v = val
    return UNIT


# ------------------------------------------------------------------ drop glue, time, timer, env, split

@model(re.compile(r'^<.* as Drop>::drop$'), 'mem::drop')
def m_drop_noop(m, c, a):
    # explicit drop of a Box / value: release RefCell guards inside it, nothing else to do in this heap model
    for x in a: m.do_drop(x)
    return UNIT


@model('Duration::from_millis')
def m_dur_ms(m, c, a): return Agg('Duration', None, None, [a[0]])


@model('Duration::as_secs', 'Duration::subsec_nanos')
def m_dur_zero(m, c, a): return 0


@model('Instant::elapsed')
def m_elapsed(m, c, a): return Agg('Duration', None, None, [0])


@model('ThreadTimer::new')
def m_tt_new(m, c, a): return Agg('ThreadTimer', None, None, [])


@model('ThreadTimer::start')
def m_tt_start(m, c, a):
    # the closure may run at any later observation of the stop flag; the harness picks the point (stop_countdown)
    m.timer = {'closure': a[2], 'armed': True, 'fired': False}
    return ok(UNIT)


@model('ThreadTimer::cancel')
def m_tt_cancel(m, c, a):
    # thread_timer 0.3: cancel() on a timer that is not waiting any more (it has fired) is Err(NotWaiting)
    if m.timer is not None:
        m.timer['armed'] = False
        if m.timer.get('fired'):
            m.timer['fired'] = False
            return err(Agg('TimerCancelError', 'NotWaiting', 0, []))
    return ok(UNIT)


@model('env::var', 'var')
def m_env_var(m, c, a): return err(Agg('VarError', 'NotPresent', 0, []))


@model('str::split')
def m_split(m, c, a):
    s, pat = as_rstr(a[0]).chars, as_rstr(a[1]).chars
    if not pat: raise Unsupported('split on empty pattern')
    parts, cur, i = [], [], 0
    n, k = len(s), len(pat)
    while i < n:
        if i + k <= n and str_eq(m, RStr(s[i:i + k]), RStr(pat)):
            parts.append(cur); cur = []; i += k
        else:
            cur.append(s[i]); i += 1
    parts.append(cur)
    return IterV('own', [Cell(StrRef(RStr(p))) for p in parts])


@model('str::split_whitespace', 'str::split_ascii_whitespace')
def m_split_whitespace(m, c, a):
    parts, cur = [], []
    for ch in as_rstr(a[0]).chars:
        if char_in(m, ch, WS):
            if cur: parts.append(cur); cur = []
        else: cur.append(ch)
    if cur: parts.append(cur)
    return IterV('own', [Cell(StrRef(RStr(p))) for p in parts])


@model('str::to_uppercase')
def m_upper(m, c, a):
    return RStr([ch.upper() if isinstance(ch, str) else ch for ch in as_rstr(a[0]).chars])


# ------------------------------------------------------------------ a broader std surface (code under test may change)

def _char_pred(m, ch, ranges, extra=()):
    """ch in any of the inclusive code-point ranges; symbolic chars fork via the solver"""
    if isinstance(ch, str):
        o = ord(ch)
        return any(lo <= o <= hi for lo, hi in ranges) or ch in extra
    e = ch.e
    conds = [z3.And(z3.UGE(e, lo), z3.ULE(e, hi)) for lo, hi in ranges] + [e == ord(x) for x in extra]
    return m.branch(Sym(z3.Or(conds), 'bool'))


def _ascii_guard(m, ch, what):
    """symbolic characters are supported by the unicode-table predicates only when they are provably ASCII or e-acute"""
    if isinstance(ch, str): return
    if m._check(z3.And(z3.UGE(ch.e, 128), ch.e != 0xE9)):
        raise Unsupported('%s on a symbolic non-ASCII character' % what)


@model('char::is_ascii_digit')
def m_is_ascii_digit(m, c, a): return _char_pred(m, deref_char(a[0]), [(48, 57)])


@model('char::is_ascii_alphabetic')
def m_is_ascii_alpha(m, c, a): return _char_pred(m, deref_char(a[0]), [(65, 90), (97, 122)])


@model('char::is_ascii_alphanumeric')
def m_is_ascii_alnum(m, c, a): return _char_pred(m, deref_char(a[0]), [(48, 57), (65, 90), (97, 122)])


@model('char::is_ascii_whitespace')
def m_is_ascii_ws(m, c, a): return _char_pred(m, deref_char(a[0]), [(9, 10), (12, 13), (32, 32)])


@model('char::is_ascii_uppercase')
def m_is_ascii_upper(m, c, a): return _char_pred(m, deref_char(a[0]), [(65, 90)])


@model('char::is_ascii_lowercase')
def m_is_ascii_lower(m, c, a): return _char_pred(m, deref_char(a[0]), [(97, 122)])


@model('char::is_ascii_punctuation')
def m_is_ascii_punct(m, c, a): return _char_pred(m, deref_char(a[0]), [(33, 47), (58, 64), (91, 96), (123, 126)])


@model('char::is_ascii')
def m_is_ascii(m, c, a): return _char_pred(m, deref_char(a[0]), [(0, 127)])


@model('char::is_numeric')
def m_is_numeric(m, c, a):
    ch = deref_char(a[0])
    if isinstance(ch, str): return ch.isnumeric()
    _ascii_guard(m, ch, 'is_numeric'); return _char_pred(m, ch, [(48, 57)])


@model('char::is_digit')
def m_is_digit(m, c, a):
    ch = deref_char(a[0]); radix = a[1]
    if radix != 10: raise Unsupported('is_digit radix %r' % (radix,))
    return _char_pred(m, ch, [(48, 57)])


@model('char::is_whitespace')
def m_is_whitespace(m, c, a):
    ch = deref_char(a[0])
    if isinstance(ch, str): return ch in WS
    _ascii_guard(m, ch, 'is_whitespace'); return _char_pred(m, ch, [(9, 13), (32, 32)])


@model('char::is_alphanumeric')
def m_is_alnum(m, c, a):
    ch = deref_char(a[0])
    if isinstance(ch, str): return ch.isalnum()
    _ascii_guard(m, ch, 'is_alphanumeric'); return _char_pred(m, ch, [(48, 57), (65, 90), (97, 122), (0xE9, 0xE9)])


@model('char::is_uppercase')
def m_is_upper(m, c, a):
    ch = deref_char(a[0])
    if isinstance(ch, str): return ch.isupper()
    _ascii_guard(m, ch, 'is_uppercase'); return _char_pred(m, ch, [(65, 90)])


@model('char::is_lowercase')
def m_is_lower(m, c, a):
    ch = deref_char(a[0])
    if isinstance(ch, str): return ch.islower()
    _ascii_guard(m, ch, 'is_lowercase'); return _char_pred(m, ch, [(97, 122), (0xE9, 0xE9)])


def deref_char(v):
    while isinstance(v, (Ptr, RcV)): v = v.cell.v
    return v


@model('str::trim_start', 'str::trim_left')
def m_trim_start(m, c, a):
    ch = as_rstr(a[0]).chars; i = 0
    while i < len(ch) and char_in(m, ch[i], WS): i += 1
    return StrRef(RStr(ch[i:]))


@model('str::trim_end', 'str::trim_right')
def m_trim_end(m, c, a):
    ch = as_rstr(a[0]).chars; j = len(ch)
    while j > 0 and char_in(m, ch[j - 1], WS): j -= 1
    return StrRef(RStr(ch[:j]))


def _pattern(m, p):
    """a str pattern argument: &str / String / char -> list of chars"""
    while isinstance(p, (Ptr, RcV)) and not isinstance(p.cell.v, (RStr,)): p = p.cell.v
    if isinstance(p, (str, Sym)): return [p]
    return list(as_rstr(p).chars)


@model('str::ends_with')
def m_ends_with(m, c, a):
    t = _char_test(m, a[1])
    if t is not None:
        cs = as_rstr(a[0]).chars
        return bool(cs) and t(cs[-1])
    s, p = as_rstr(a[0]).chars, _pattern(m, a[1])
    if len(p) > len(s): return False
    return str_eq(m, RStr(s[len(s) - len(p):]), RStr(p))


@model('str::contains')
def m_contains(m, c, a):
    s, p = as_rstr(a[0]).chars, _pattern(m, a[1])
    for i in range(0, len(s) - len(p) + 1):
        if str_eq(m, RStr(s[i:i + len(p)]), RStr(p)): return True
    return False


@model('str::find')
def m_find(m, c, a):
    s, p = as_rstr(a[0]).chars, _pattern(m, a[1])
    b = 0
    for i in range(0, len(s) - len(p) + 1):
        if str_eq(m, RStr(s[i:i + len(p)]), RStr(p)): return some(b)
        b += char_utf8_len(m, s[i])
    return none()


def char_utf8_len(m, ch):
    if isinstance(ch, str): return len(ch.encode('utf-8'))
    if m.branch(Sym(z3.ULT(ch.e, 0x80), 'bool')): return 1
    if m.branch(Sym(z3.ULT(ch.e, 0x800), 'bool')): return 2
    if m.branch(Sym(z3.ULT(ch.e, 0x10000), 'bool')): return 3
    return 4


@model('str::is_empty', 'String::is_empty')
def m_str_is_empty(m, c, a): return len(as_rstr(a[0]).chars) == 0


@model('str::to_lowercase')
def m_lower(m, c, a):
    return RStr([ch.lower() if isinstance(ch, str) else ch for ch in as_rstr(a[0]).chars])


@model('str::replace')
def m_replace(m, c, a):
    s, p, r = as_rstr(a[0]).chars, _pattern(m, a[1]), as_rstr(a[2]).chars
    out, i = [], 0
    while i < len(s):
        if p and i + len(p) <= len(s) and str_eq(m, RStr(s[i:i + len(p)]), RStr(p)):
            out.extend(r); i += len(p)
        else:
            out.append(s[i]); i += 1
    return RStr(out)


@model('String::clear')
def m_string_clear(m, c, a): as_rstr(a[0]).chars[:] = []; return UNIT


@model('String::insert')
def m_string_insert(m, c, a):
    s = as_rstr(a[0]); i = m.concretize(a[1])
    # byte index; supported for ASCII prefixes
    s.chars.insert(i, a[2]); return UNIT


@model('String::truncate')
def m_string_truncate(m, c, a):
    s = as_rstr(a[0]); n = m.concretize(a[1]); del s.chars[n:]; return UNIT


@model('String::with_capacity')
def m_string_wc(m, c, a): return RStr([])


@model('String::chars', 'String::as_ref')
def m_string_chars(m, c, a): return IterV('chars', list(as_rstr(a[0]).chars))


@model('str::char_indices')
def m_char_indices(m, c, a):
    cs = list(as_rstr(a[0]).chars); out = []; b = 0
    for ch in cs:
        out.append(Cell(Agg(None, None, None, [b, ch]))); b += char_utf8_len(m, ch)
    return IterV('own', out)


@model('Vec::is_empty', '[]::is_empty')
def m_vec_is_empty(m, c, a):
    v = a[0] if isinstance(a[0], SliceRef) else deref(a[0])
    return len(seq_cells(v)) == 0


@model('Vec::clear')
def m_vec_clear(m, c, a): deref(a[0]).items[:] = []; return UNIT


@model('Vec::insert')
def m_vec_insert(m, c, a):
    v = deref(a[0]); i = m.concretize(a[1])
    if i > len(v.items): raise RustPanic('insertion index (is %d) should be <= len (is %d)' % (i, len(v.items)))
    v.items.insert(i, Cell(a[2])); return UNIT


@model('Vec::truncate')
def m_vec_truncate(m, c, a):
    v = deref(a[0]); n = m.concretize(a[1]); del v.items[n:]; return UNIT


@model('Vec::extend', 'Vec::extend_from_slice')
def m_vec_extend(m, c, a):
    v = deref(a[0]); src = a[1]
    if isinstance(src, IterV):
        while True:
            nx = m_iter_next(m, '', [Ptr(Cell(src))])
            if nx.vidx == 0: break
            v.items.append(Cell(nx.fields[0].v))
    else:
        s = src if isinstance(src, SliceRef) else deref(src)
        v.items.extend(Cell(deep_clone(m, x.v)) for x in seq_cells(s))
    return UNIT


@model('[]::last', 'Vec::last')
def m_slice_last(m, c, a):
    v = a[0] if isinstance(a[0], SliceRef) else deref(a[0])
    cs = seq_cells(v)
    return some(Ptr(cs[-1])) if cs else none()


@model('[]::first', 'Vec::first')
def m_slice_first(m, c, a):
    v = a[0] if isinstance(a[0], SliceRef) else deref(a[0])
    cs = seq_cells(v)
    return some(Ptr(cs[0])) if cs else none()


@model('[]::get', 'Vec::get')
def m_slice_get(m, c, a):
    v = a[0] if isinstance(a[0], SliceRef) else deref(a[0])
    cs = seq_cells(v); i = m.concretize(a[1])
    return some(Ptr(cs[i])) if 0 <= i < len(cs) else none()


@model('[]::contains', 'Vec::contains')
def m_slice_contains(m, c, a):
    v = a[0] if isinstance(a[0], SliceRef) else deref(a[0])
    x = deref(a[1])
    return any(values_eq(m, e.v, x) for e in seq_cells(v))


@model('Vec::swap_remove')
def m_swap_remove(m, c, a):
    v = deref(a[0]); i = m.concretize(a[1])
    if i >= len(v.items): raise RustPanic('swap_remove index out of bounds')
    x = v.items[i].v; last = v.items.pop()
    if i < len(v.items): v.items[i] = last
    return x


@model('[]::reverse', 'Vec::reverse')
def m_reverse(m, c, a):
    v = a[0] if isinstance(a[0], SliceRef) else deref(a[0])
    cs = seq_cells(v); vals = [x.v for x in cs][::-1]
    for cell, val in zip(cs, vals): cell.v = val
    return UNIT


@model('Option::unwrap_or')
def m_unwrap_or(m, c, a): return a[0].fields[0].v if a[0].vidx == 1 else a[1]


@model('Option::expect')
def m_expect(m, c, a):
    if a[0].vidx == 0: raise RustPanic(as_rstr(a[1]).concrete())
    return a[0].fields[0].v


@model('Result::expect')
def m_rexpect(m, c, a):
    if a[0].vidx == 1: raise RustPanic(as_rstr(a[1]).concrete())
    return a[0].fields[0].v


@model('Result::is_ok')
def m_is_ok(m, c, a): return deref(a[0]).vidx == 0


@model('Result::is_err')
def m_is_err(m, c, a): return deref(a[0]).vidx == 1


@model('Result::ok')
def m_res_ok(m, c, a): return some(a[0].fields[0].v) if a[0].vidx == 0 else none()


@model('Option::ok_or')
def m_ok_or(m, c, a): return ok(a[0].fields[0].v) if a[0].vidx == 1 else err(a[1])


@model('Option::take')
def m_opt_take(m, c, a):
    cell = a[0].cell; v = cell.v; cell.v = none(); return v


@model('Option::as_deref', 'Option::as_deref_mut')
def m_opt_as_deref(m, c, a):
    # &Option<Rc<T>> / &Option<Box<T>> / &Option<String> / &Option<Vec<T>> -> Option<&T> / Option<&str> / Option<&[T]>
    o = deref(a[0])
    if o.vidx != 1: return none()
    v = o.fields[0].v
    if isinstance(v, RcV): return some(Ptr(v.cell))
    if isinstance(v, RStr): return some(StrRef(v))
    if isinstance(v, VecV): return some(SliceRef(v.items, 0, len(v.items)))
    if isinstance(v, Ptr): return some(v)
    raise Unsupported('Option::as_deref on %r' % (type(v).__name__,))


@model('RangeInclusive::new')
def m_range_incl_new(m, c, a): return Agg('RangeInclusive', None, None, [a[0], a[1], False])


@model('Range::contains', 'RangeInclusive::contains', 'RangeFrom::contains', 'RangeTo::contains', 'RangeToInclusive::contains')
def m_range_contains(m, callee, a):
    r = deref(a[0]); x = deref_char(a[1])
    def ge(u, v): return m.branch(m.binop('Ge', u, v))
    def lt(u, v): return m.branch(m.binop('Lt', u, v))
    def le(u, v): return m.branch(m.binop('Le', u, v))
    f = [c.v for c in r.fields]
    if r.ty == 'Range': return ge(x, f[0]) and lt(x, f[1])
    if r.ty == 'RangeInclusive': return ge(x, f[0]) and le(x, f[1])
    if r.ty == 'RangeFrom': return ge(x, f[0])
    if r.ty == 'RangeTo': return lt(x, f[0])
    if r.ty == 'RangeToInclusive': return le(x, f[0])
    raise Unsupported('contains on ' + str(r.ty))


@model('Option::flatten')
def m_opt_flatten(m, c, a):
    o = a[0]
    return o.fields[0].v if o.vidx == 1 else none()


@model('Option::filter')
def m_opt_filter(m, c, a):
    o = a[0]
    if o.vidx != 1: return o
    return o if m.branch(call_closure(m, a[1], [Ptr(o.fields[0])])) else none()


@model('bool::then')
def m_bool_then(m, c, a):
    return some(call_closure(m, a[1], [])) if m.branch(a[0]) else none()


@model('bool::then_some')
def m_bool_then_some(m, c, a):
    return some(a[1]) if m.branch(a[0]) else none()


@model('mem::take')
def m_mem_take(m, callee, a):
    cell = a[0].cell; v = cell.v
    if isinstance(v, VecV): cell.v = VecV([])
    elif isinstance(v, RStr): cell.v = RStr([])
    elif isinstance(v, Agg) and v.ty == 'Option': cell.v = none()
    elif isinstance(v, bool): cell.v = False
    elif isinstance(v, int): cell.v = 0
    elif isinstance(v, MapV): cell.v = MapV()
    else: raise Unsupported('mem::take of %r' % (type(v).__name__,))
    return v


@model('[]::split_first', '[]::split_last')
def m_split_first(m, callee, a):
    v = a[0] if isinstance(a[0], SliceRef) else deref(a[0])
    sl = v if isinstance(v, SliceRef) else SliceRef(seq_cells(v), 0, len(seq_cells(v)))
    if sl.hi - sl.lo == 0: return none()
    if canon_last(callee) == 'split_first':
        return some(Agg(None, None, None, [Ptr(sl.items[sl.lo]), SliceRef(sl.items, sl.lo + 1, sl.hi)]))
    return some(Agg(None, None, None, [Ptr(sl.items[sl.hi - 1]), SliceRef(sl.items, sl.lo, sl.hi - 1)]))


@model('<[] as TryFrom>::try_from')
def m_arr_try_from(m, callee, a):
    # <[T; N] as TryFrom<Vec<T>>>::try_from: Ok(array) when the length is N, else Err(the vector)
    mm = re.search(r'<\[.*; (\d+)\] as TryFrom', callee)
    v = a[0]
    if mm is None or not isinstance(v, VecV): raise Unsupported('try_from ' + callee)
    if len(v.items) == int(mm.group(1)): return ok(ArrV([c.v for c in v.items]))
    return err(v)


@model('str::split_once')
def m_split_once(m, c, a):
    s, pat = as_rstr(a[0]).chars, _pattern(m, a[1])
    if not pat: raise Unsupported('split_once on empty pattern')
    for i in range(0, len(s) - len(pat) + 1):
        if str_eq(m, RStr(s[i:i + len(pat)]), RStr(pat)):
            return some(Agg(None, None, None, [StrRef(RStr(s[:i])), StrRef(RStr(s[i + len(pat):]))]))
    return none()


@model('Option::as_ref', 'Option::as_mut')
def m_opt_as_ref(m, c, a):
    o = deref(a[0])
    return some(Ptr(o.fields[0])) if o.vidx == 1 else none()


@model('Option::map_or_else', 'Result::map_or_else')
def m_map_or_else(m, callee, a):
    o = a[0]; is_res = o.ty == 'Result'
    good = (o.vidx == 0) if is_res else (o.vidx == 1)
    if good: return call_closure(m, a[2], [o.fields[0].v])
    return call_closure(m, a[1], [o.fields[0].v] if is_res else [])


@model('Option::map', 'Option::and_then', 'Option::unwrap_or_else', 'Option::map_or', 'Option::is_some_and', 'Result::map', 'Result::map_err', 'Result::unwrap_or_else')
def m_opt_combinators(m, callee, a):
    key = canon_last(callee)
    o = a[0]
    is_res = o.ty == 'Result'
    good = (o.vidx == 0) if is_res else (o.vidx == 1)
    if key == 'map':
        if good:
            r = call_closure(m, a[1], [o.fields[0].v]); return ok(r) if is_res else some(r)
        return o
    if key == 'map_err':
        return o if good else err(call_closure(m, a[1], [o.fields[0].v]))
    if key == 'and_then': return call_closure(m, a[1], [o.fields[0].v]) if good else o
    if key == 'unwrap_or_else':
        return o.fields[0].v if good else call_closure(m, a[1], [o.fields[0].v] if is_res else [])
    if key == 'map_or': return call_closure(m, a[2], [o.fields[0].v]) if good else a[1]
    if key == 'is_some_and': return bool(m.branch(call_closure(m, a[1], [o.fields[0].v]))) if good else False
    raise Unsupported(callee)


@model(re.compile(r'^<.* as Iterator>::(map|filter|rev|skip|take|all|any|count|position|rposition|for_each|sum|product|last|nth|peekable|cloned|copied|zip|min|max|find|skip_while|take_while|filter_map|flat_map|flatten|chain|step_by)$'))
def m_iter_adapters(m, callee, a):
    key = canon_last(callee)
    it = a[0]
    while isinstance(it, Ptr): it = it.cell.v       # all/any/position/find/nth take &mut self
    if not isinstance(it, IterV): it = m_into_iter(m, '', [it])
    def each():
        while True:
            nx = m_iter_next(m, '', [Ptr(Cell(it))])
            if nx.vidx == 0: return
            yield nx.fields[0].v
    def drain(): return list(each())
    if key in ('map', 'filter', 'filter_map'): return IterV('lazy', None, {'op': key, 'src': it, 'f': a[1]})
    if key == 'rev': return IterV('own', [Cell(x) for x in drain()[::-1]])
    if key == 'flat_map':
        out = []
        for x in drain():
            out.extend(Cell(y) for y in _drain(m, call_closure(m, a[1], [x])))
        return IterV('own', out)
    if key == 'flatten':
        out = []
        for x in drain(): out.extend(Cell(y) for y in _drain(m, x))
        return IterV('own', out)
    if key == 'skip_while':
        xs = drain(); i = 0
        while i < len(xs) and m.branch(call_closure(m, a[1], [Ptr(Cell(xs[i]))])): i += 1
        return IterV('own', [Cell(x) for x in xs[i:]])
    if key == 'take_while':
        out = []
        for x in each():
            if not m.branch(call_closure(m, a[1], [Ptr(Cell(x))])): break
            out.append(Cell(x))
        return IterV('own', out)
    if key == 'step_by':
        n = m.concretize(a[1]); return IterV('own', [Cell(x) for x in drain()[::n]])
    if key in ('min', 'max'):
        xs = drain()
        if not xs: return none()
        best = xs[0]
        for x in xs[1:]:
            lt = m.branch(m.binop('Lt', deref_char(x), deref_char(best)))
            if (key == 'min' and lt) or (key == 'max' and not lt): best = x
        return some(best)
    if key == 'skip':
        n = m.concretize(a[1]); return IterV('own', [Cell(x) for x in drain()[n:]])
    if key == 'take':
        n = m.concretize(a[1]); out = []
        if n > 0:
            for x in each():
                out.append(Cell(x))
                if len(out) >= n: break
        return IterV('own', out)
    if key in ('cloned', 'copied'): return IterV('own', [Cell(deep_clone(m, deref(x))) for x in drain()])
    if key == 'peekable' : return it
    if key == 'chain': return IterV('own', [Cell(x) for x in drain()] + [Cell(x) for x in _drain(m, a[1])])
    if key == 'zip':
        xs, ys = drain(), _drain(m, a[1])
        return IterV('own', [Cell(Agg(None, None, None, [x, y])) for x, y in zip(xs, ys)])
    if key == 'all':
        for x in each():
            if not m.branch(call_closure(m, a[1], [x])): return False
        return True
    if key == 'any':
        for x in each():
            if m.branch(call_closure(m, a[1], [x])): return True
        return False
    if key == 'count': return len(drain())
    if key == 'position':
        for i, x in enumerate(each()):
            if m.branch(call_closure(m, a[1], [x])): return some(i)
        return none()
    if key == 'rposition':
        xs = drain()
        for i in range(len(xs) - 1, -1, -1):
            if m.branch(call_closure(m, a[1], [xs[i]])): return some(i)
        return none()
    if key == 'find':
        for x in each():
            if m.branch(call_closure(m, a[1], [Ptr(Cell(x))])): return some(x)
        return none()
    if key == 'for_each':
        for x in drain(): call_closure(m, a[1], [x])
        return UNIT
    if key == 'last':
        xs = drain(); return some(xs[-1]) if xs else none()
    if key == 'nth':
        n = m.concretize(a[1])
        for i, x in enumerate(each()):
            if i == n: return some(x)
        return none()
    if key in ('sum', 'product'):
        # the element type decides the arithmetic: floats fold with IEEE ops, integers with overflow checks
        xs = [deref_char(x) for x in drain()]
        isf = any(isinstance(v, float) or (isinstance(v, Sym) and v.ty == 'f64') for v in xs) or 'f64' in callee
        acc = (0.0 if key == 'sum' else 1.0) if isf else (0 if key == 'sum' else 1)
        for v in xs:
            if isf:
                acc = m.binop('Add' if key == 'sum' else 'Mul', acc, v)
            elif isinstance(v, Sym) or isinstance(acc, Sym):
                ty = v.ty if isinstance(v, Sym) else acc.ty
                r = m.binop('AddWithOverflow' if key == 'sum' else 'MulWithOverflow', acc if isinstance(acc, Sym) else Sym(z3.BitVecVal(acc, INT_BITS[ty]), ty),
                            v if isinstance(v, Sym) else Sym(z3.BitVecVal(v, INT_BITS[ty]), ty))
                if m.branch(r.fields[1].v): raise RustPanic('attempt to add with overflow' if key == 'sum' else 'attempt to multiply with overflow')
                acc = r.fields[0].v
            else:
                acc = acc + v if key == 'sum' else acc * v
                if not -(1 << 63) <= acc < (1 << 63): raise RustPanic('arithmetic overflow in iterator fold')
        return acc
    raise Unsupported('iterator adapter ' + callee)


def _drain(m, it):
    if not isinstance(it, IterV): it = m_into_iter(m, '', [it])
    out = []
    while True:
        nx = m_iter_next(m, '', [Ptr(Cell(it))])
        if nx.vidx == 0: return out
        out.append(nx.fields[0].v)


def canon_last(callee):
    """method name of a callee path: the trailing generic argument list (which may itself contain paths with `::<`) is cut off"""
    s = callee
    if s.endswith('>') and '::<' in s:
        depth, i = 0, len(s) - 1
        while i >= 0:
            ch = s[i]
            if ch == '>' and not (i > 0 and s[i - 1] == '-'): depth += 1
            elif ch == '<':
                depth -= 1
                if depth == 0: break
            i -= 1
        if i >= 2 and s[i - 2:i] == '::': s = s[:i - 2]
        else: s = s[:s.rindex('::<')]
    return s.split('::')[-1]


# ------------------------------------------------------------------ Rc identity, integer / float methods

@model('Rc::ptr_eq')
def m_rc_ptr_eq(m, c, a):
    x, y = deref(a[0]) if isinstance(a[0], Ptr) else a[0], deref(a[1]) if isinstance(a[1], Ptr) else a[1]
    return x.cell is y.cell


@model('Rc::strong_count')
def m_rc_strong(m, c, a): raise Unsupported('Rc::strong_count is not modelled')


def _ity(callee, default='i64'):
    mm = re.search(r'\b([iu](?:8|16|32|64|128|size))::', callee)
    return mm.group(1) if mm else default


def _isym(v, ty):
    return v.e if isinstance(v, Sym) else z3.BitVecVal(v, INT_BITS[ty])


@model(re.compile(r'^[iu](8|16|32|64|128|size)::(div_euclid|rem_euclid|abs|signum|pow|wrapping_add|wrapping_sub|wrapping_mul|wrapping_neg|checked_add|checked_sub|checked_mul|checked_div|'
                  r'saturating_add|saturating_sub|min|max|is_negative|is_positive|unsigned_abs|abs_diff)$'))
def m_int_methods(m, callee, a):
    from .machine import is_signed, int_range
    key = canon_last(callee); ty = _ity(callee)
    lo, hi = int_range(ty); sg = is_signed(ty)
    x = a[0]; y = a[1] if len(a) > 1 else None
    sym = isinstance(x, Sym) or isinstance(y, Sym)
    def cmp(op, p, q): return m.branch(m.binop(op, p, q))
    if key in ('min', 'max'):
        less = cmp('Lt', x, y)
        return (x if less else y) if key == 'min' else (y if less else x)
    if key == 'is_negative': return cmp('Lt', x, 0)
    if key == 'is_positive': return cmp('Gt', x, 0)
    if key == 'signum': return -1 if cmp('Lt', x, 0) else (1 if cmp('Gt', x, 0) else 0)
    if key == 'abs':
        if cmp('Eq', x, lo) and sg: raise RustPanic('attempt to negate with overflow')
        return (Sym(-x.e, ty) if isinstance(x, Sym) else -x) if cmp('Lt', x, 0) else x
    if key in ('wrapping_add', 'wrapping_sub', 'wrapping_mul'):
        op = {'wrapping_add': 'Add', 'wrapping_sub': 'Sub', 'wrapping_mul': 'Mul'}[key]
        if sym: return Sym({'Add': _isym(x, ty) + _isym(y, ty), 'Sub': _isym(x, ty) - _isym(y, ty), 'Mul': _isym(x, ty) * _isym(y, ty)}[op], ty)
        return wrap_int({'Add': x + y, 'Sub': x - y, 'Mul': x * y}[op], ty)
    if key in ('checked_add', 'checked_sub', 'checked_mul'):
        op = {'checked_add': 'AddWithOverflow', 'checked_sub': 'SubWithOverflow', 'checked_mul': 'MulWithOverflow'}[key]
        if sym:
            r = m.binop(op, x if isinstance(x, Sym) else Sym(_isym(x, ty), ty), y if isinstance(y, Sym) else Sym(_isym(y, ty), ty))
            return none() if m.branch(r.fields[1].v) else some(r.fields[0].v)
        v = {'AddWithOverflow': x + y, 'SubWithOverflow': x - y, 'MulWithOverflow': x * y}[op]
        return some(v) if lo <= v <= hi else none()
    if key in ('div_euclid', 'rem_euclid', 'checked_div'):
        if cmp('Eq', y, 0):
            if key == 'checked_div': return none()
            raise RustPanic('attempt to divide by zero')
        if sg and cmp('Eq', x, lo) and cmp('Eq', y, -1):
            if key == 'checked_div': return none()
            raise RustPanic('attempt to divide with overflow')
        if sym:
            ex, ey = _isym(x, ty), _isym(y, ty)
            q = (ex / ey) if sg else z3.UDiv(ex, ey)
            r = z3.SRem(ex, ey) if sg else z3.URem(ex, ey)
            if key == 'checked_div': return some(Sym(q, ty))
            if not sg: return Sym(q if key == 'div_euclid' else r, ty)
            neg = r < 0
            qe = z3.If(neg, z3.If(ey > 0, q - 1, q + 1), q)
            re_ = z3.If(neg, z3.If(ey > 0, r + ey, r - ey), r)
            return Sym(qe if key == 'div_euclid' else re_, ty)
        q = abs(x) // abs(y); q = q if (x < 0) == (y < 0) else -q
        r = x - q * y
        if key == 'checked_div': return some(q)
        if r < 0:
            if y > 0: q, r = q - 1, r + y
            else: q, r = q + 1, r - y
        return q if key == 'div_euclid' else r
    if key == 'pow':
        e = m.concretize(y)
        acc = 1
        for _ in range(e):
            r = m.binop('MulWithOverflow', acc if isinstance(acc, Sym) else Sym(_isym(acc, ty), ty), x if isinstance(x, Sym) else Sym(_isym(x, ty), ty)) if sym else None
            if r is None:
                acc = acc * x
                if not lo <= acc <= hi: raise RustPanic('attempt to multiply with overflow')
            else:
                if m.branch(r.fields[1].v): raise RustPanic('attempt to multiply with overflow')
                acc = r.fields[0].v
        return acc
    raise Unsupported('integer method ' + callee)


@model(re.compile(r'^f64::(abs|floor|ceil|round|trunc|sqrt|is_nan|is_infinite|is_finite|min|max|powi|mul_add|signum|is_sign_negative|is_sign_positive|to_bits|from_bits|fract)$'))
def m_f64_methods(m, callee, a):
    key = canon_last(callee)
    x = a[0]; y = a[1] if len(a) > 1 else None
    sym = any(isinstance(v, Sym) for v in a)
    if not sym:
        import math
        if key == 'abs': return abs(x)
        if key == 'floor': return float(math.floor(x)) if math.isfinite(x) else x
        if key == 'ceil': return float(math.ceil(x)) if math.isfinite(x) else x
        if key == 'trunc': return float(math.trunc(x)) if math.isfinite(x) else x
        if key == 'round': return (float(math.floor(abs(x) + 0.5)) * (1 if x >= 0 else -1)) if math.isfinite(x) else x
        if key == 'fract': return x - float(math.trunc(x)) if math.isfinite(x) else float('nan')
        if key == 'sqrt': return math.sqrt(x) if x >= 0 else float('nan')
        if key == 'is_nan': return x != x
        if key == 'is_infinite': return math.isinf(x)
        if key == 'is_finite': return math.isfinite(x)
        if key == 'min': return y if x != x else (x if y != y else min(x, y))
        if key == 'max': return y if x != x else (x if y != y else max(x, y))
        if key == 'powi': return x ** y
        if key == 'mul_add': return math.fma(x, y, a[2]) if hasattr(math, 'fma') else x * y + a[2]
        if key == 'signum': return float('nan') if x != x else math.copysign(1.0, x)
        if key == 'is_sign_negative': return math.copysign(1.0, x) < 0
        if key == 'is_sign_positive': return math.copysign(1.0, x) > 0
        if key == 'to_bits':
            import struct
            return struct.unpack('<Q', struct.pack('<d', x))[0]
    ex = to_z3(x, 'f64')
    rm = z3.RNE()
    if key == 'abs': return Sym(z3.fpAbs(ex), 'f64')
    if key == 'is_nan': return m.branch(Sym(z3.fpIsNaN(ex), 'bool'))
    if key == 'is_infinite': return m.branch(Sym(z3.fpIsInf(ex), 'bool'))
    if key == 'is_finite': return m.branch(Sym(z3.Not(z3.Or(z3.fpIsInf(ex), z3.fpIsNaN(ex))), 'bool'))
    if key == 'is_sign_negative': return m.branch(Sym(z3.fpIsNegative(ex), 'bool'))
    if key == 'is_sign_positive': return m.branch(Sym(z3.fpIsPositive(ex), 'bool'))
    if key == 'floor': return Sym(z3.fpRoundToIntegral(z3.RTN(), ex), 'f64')
    if key == 'ceil': return Sym(z3.fpRoundToIntegral(z3.RTP(), ex), 'f64')
    if key == 'trunc': return Sym(z3.fpRoundToIntegral(z3.RTZ(), ex), 'f64')
    if key == 'round': return Sym(z3.fpRoundToIntegral(z3.RNA(), ex), 'f64')
    if key == 'sqrt': return Sym(z3.fpSqrt(rm, ex), 'f64')
    if key == 'min': return Sym(z3.fpMin(ex, to_z3(y, 'f64')), 'f64')
    if key == 'max': return Sym(z3.fpMax(ex, to_z3(y, 'f64')), 'f64')
    if key == 'mul_add': return Sym(z3.fpFMA(rm, ex, to_z3(y, 'f64'), to_z3(a[2], 'f64')), 'f64')
    if key == 'fract': return Sym(z3.fpSub(rm, ex, z3.fpRoundToIntegral(z3.RTZ(), ex)), 'f64')
    if key == 'signum': return Sym(z3.If(z3.fpIsNaN(ex), ex, z3.If(z3.fpIsNegative(ex), z3.FPVal(-1.0, z3.Float64()), z3.FPVal(1.0, z3.Float64()))), 'f64')
    if key == 'to_bits': return Sym(z3.fpToIEEEBV(ex), 'u64')
    raise Unsupported('f64 method on a symbolic value: ' + callee)


# ------------------------------------------------------------------ operator traits on scalars, more str / f64 helpers

@model(re.compile(r'^<.* as (Add|Sub|Mul|Div|Rem|Neg|AddAssign|SubAssign|MulAssign|DivAssign)>::\w+$'))
def m_scalar_ops(m, callee, a):
    tr = re.search(r' as (\w+)', callee).group(1)
    mt = re.match(r'^<&?(?:mut )?(\w+)', callee)
    ty = mt.group(1) if mt else ''
    x = deref_char(a[0]); y = deref_char(a[1]) if len(a) > 1 else None
    if isinstance(x, RStr) or isinstance(a[0], RStr):
        raise Unsupported('operator trait on strings: ' + callee)
    assign = tr.endswith('Assign')
    base = tr[:-6] if assign else tr
    if ty == 'f64' or isinstance(x, float) or (isinstance(x, Sym) and x.ty == 'f64'):
        if base == 'Neg': r = m.rvalue_unop_neg(x) if hasattr(m, 'rvalue_unop_neg') else (Sym(z3.fpNeg(x.e), 'f64') if isinstance(x, Sym) else -x)
        else: r = m.binop(base, x, y)
    else:
        ity = ty if ty in INT_BITS else (x.ty if isinstance(x, Sym) else 'i64')
        if base == 'Neg':
            r = m.binop('SubWithOverflow', Sym(z3.BitVecVal(0, INT_BITS[ity]), ity), x if isinstance(x, Sym) else Sym(z3.BitVecVal(x, INT_BITS[ity]), ity))
            if m.branch(r.fields[1].v): raise RustPanic('attempt to negate with overflow')
            r = r.fields[0].v
            if isinstance(r, Sym) and z3.is_bv_value(z3.simplify(r.e)): r = wrap_int(z3.simplify(r.e).as_long(), ity)
        elif base in ('Add', 'Sub', 'Mul'):
            sx = x if isinstance(x, Sym) else Sym(z3.BitVecVal(x, INT_BITS[ity]), ity)
            sy = y if isinstance(y, Sym) else Sym(z3.BitVecVal(y, INT_BITS[ity]), ity)
            rr = m.binop(base + 'WithOverflow', sx, sy)
            if m.branch(rr.fields[1].v): raise RustPanic('attempt to %s with overflow' % {'Add': 'add', 'Sub': 'subtract', 'Mul': 'multiply'}[base])
            r = rr.fields[0].v
            if not isinstance(x, Sym) and not isinstance(y, Sym): r = wrap_int({'Add': x + y, 'Sub': x - y, 'Mul': x * y}[base], ity)
        else:
            if m.branch(m.binop('Eq', y, 0)): raise RustPanic('attempt to divide by zero')
            from .machine import int_range
            lo = int_range(ity)[0]
            if ity[0] == 'i' and m.branch(m.binop('Eq', x, lo)) and m.branch(m.binop('Eq', y, -1)): raise RustPanic('attempt to divide with overflow')
            if isinstance(x, Sym) or isinstance(y, Sym):
                sx = x if isinstance(x, Sym) else Sym(z3.BitVecVal(x, INT_BITS[ity]), ity)
                sy = y if isinstance(y, Sym) else Sym(z3.BitVecVal(y, INT_BITS[ity]), ity)
                r = m.binop(base, sx, sy)
            else:
                q = abs(x) // abs(y); q = q if (x < 0) == (y < 0) else -q
                r = q if base == 'Div' else x - q * y
    if assign:
        a[0].cell.v = r
        return UNIT
    return r


@model('f64::total_cmp')
def m_total_cmp(m, c, a):
    x, y = deref_char(a[0]), deref_char(a[1])
    def key(v):
        # IEEE totalOrder through the sign-magnitude bit trick
        if isinstance(v, Sym):
            b = z3.fpToIEEEBV(v.e)
            return z3.If(z3.Extract(63, 63, b) == 1, ~b, b | z3.BitVecVal(1 << 63, 64))
        import struct
        bits = struct.unpack('<Q', struct.pack('<d', v))[0]
        return z3.BitVecVal((~bits) & ((1 << 64) - 1) if bits >> 63 else bits | (1 << 63), 64)
    kx, ky = key(x), key(y)
    if m.branch(Sym(z3.ULT(kx, ky), 'bool')): return ordering(-1)
    if m.branch(Sym(z3.UGT(kx, ky), 'bool')): return ordering(1)
    return ordering(0)


@model('i64::cmp', 'usize::cmp', 'i32::cmp', 'u64::cmp')
def m_int_cmp(m, c, a):
    x, y = deref_char(a[0]), deref_char(a[1])
    if m.branch(m.binop('Lt', x, y)): return ordering(-1)
    if m.branch(m.binop('Gt', x, y)): return ordering(1)
    return ordering(0)


@model('str::rfind')
def m_rfind(m, c, a):
    s, p = as_rstr(a[0]).chars, _pattern(m, a[1])
    offs = [0]
    for ch in s: offs.append(offs[-1] + char_utf8_len(m, ch))
    for i in range(len(s) - len(p), -1, -1):
        if str_eq(m, RStr(s[i:i + len(p)]), RStr(p)): return some(offs[i])
    return none()


@model('str::replacen')
def m_replacen(m, c, a):
    s, p, r, n = as_rstr(a[0]).chars, _pattern(m, a[1]), as_rstr(a[2]).chars, m.concretize(a[3])
    out, i, done = [], 0, 0
    while i < len(s):
        if done < n and p and i + len(p) <= len(s) and str_eq(m, RStr(s[i:i + len(p)]), RStr(p)):
            out.extend(r); i += len(p); done += 1
        else:
            out.append(s[i]); i += 1
    return RStr(out)


@model('str::strip_prefix')
def m_strip_prefix(m, c, a):
    s, p = as_rstr(a[0]).chars, _pattern(m, a[1])
    if len(p) <= len(s) and str_eq(m, RStr(s[:len(p)]), RStr(p)): return some(StrRef(RStr(s[len(p):])))
    return none()


@model('str::strip_suffix')
def m_strip_suffix(m, c, a):
    s, p = as_rstr(a[0]).chars, _pattern(m, a[1])
    if len(p) <= len(s) and str_eq(m, RStr(s[len(s) - len(p):]), RStr(p)): return some(StrRef(RStr(s[:len(s) - len(p)])))
    return none()


@model('str::split_at')
def m_split_at(m, c, a):
    s = as_rstr(a[0]).chars; b = m.concretize(a[1])
    n = 0; k = None
    for i, ch in enumerate(s + [None]):
        if n == b: k = i; break
        if ch is None: break
        n += char_utf8_len(m, ch)
    if k is None: raise RustPanic('byte index is not a char boundary or out of range')
    return Agg(None, None, None, [StrRef(RStr(s[:k])), StrRef(RStr(s[k:]))])


@model('str::as_bytes', 'String::as_bytes')
def m_as_bytes(m, c, a):
    s = as_rstr(a[0]).chars
    if any(not isinstance(ch, str) or ord(ch) > 127 for ch in s): raise Unsupported('as_bytes on non-ASCII / symbolic text')
    return SliceRef([Cell(ord(ch)) for ch in s], 0, len(s))


@model('str::bytes')
def m_bytes(m, c, a):
    s = as_rstr(a[0]).chars
    if any(not isinstance(ch, str) or ord(ch) > 127 for ch in s): raise Unsupported('bytes on non-ASCII / symbolic text')
    return IterV('own', [Cell(ord(ch)) for ch in s])


@model('str::trim_matches', 'str::trim_start_matches', 'str::trim_end_matches')
def m_trim_matches(m, callee, a):
    cs = list(as_rstr(a[0]).chars)
    t = _char_test(m, a[1])
    if t is None:
        p = _pattern(m, a[1])
        if len(p) != 1: raise Unsupported('trim_matches with a multi-character pattern')
        t = lambda ch: (ch == p[0]) if isinstance(ch, str) and isinstance(p[0], str) else bool(m.branch(m.binop('Eq', ch, p[0])))
    key = canon_last(callee)
    i, j = 0, len(cs)
    if key in ('trim_matches', 'trim_start_matches'):
        while i < j and t(cs[i]): i += 1
    if key in ('trim_matches', 'trim_end_matches'):
        while j > i and t(cs[j - 1]): j -= 1
    return StrRef(RStr(cs[i:j]))


@model('Vec::resize')
def m_vec_resize(m, c, a):
    v = deref(a[0]); n = m.concretize(a[1])
    if n <= len(v.items): del v.items[n:]
    else: v.items.extend(Cell(deep_clone(m, a[2])) for _ in range(n - len(v.items)))
    return UNIT


@model('Vec::resize_with')
def m_vec_resize_with(m, c, a):
    v = deref(a[0]); n = m.concretize(a[1])
    if n <= len(v.items): del v.items[n:]
    else: v.items.extend(Cell(call_closure(m, a[2], [])) for _ in range(n - len(v.items)))
    return UNIT


@model('Vec::capacity')
def m_vec_capacity(m, c, a): return len(deref(a[0]).items)


@model('Vec::reserve', 'Vec::shrink_to_fit', 'String::reserve', 'String::shrink_to_fit')
def m_noop_unit(m, c, a): return UNIT


@model('Vec::split_off')
def m_vec_split_off(m, c, a):
    v = deref(a[0]); n = m.concretize(a[1])
    if n > len(v.items): raise RustPanic('`at` split index (is %d) should be <= len (is %d)' % (n, len(v.items)))
    rest = v.items[n:]; del v.items[n:]
    return VecV(rest)


@model('Vec::drain')
def m_vec_drain(m, c, a):
    v = deref(a[0]); r = a[1]
    n = len(v.items)
    lo, hi = 0, n
    if isinstance(r, Agg):
        if r.ty == 'Range': lo, hi = m.concretize(r.fields[0].v), m.concretize(r.fields[1].v)
        elif r.ty == 'RangeFrom': lo = m.concretize(r.fields[0].v)
        elif r.ty == 'RangeTo': hi = m.concretize(r.fields[0].v)
    if lo > hi or hi > n: raise RustPanic('drain range out of bounds')
    out = v.items[lo:hi]; del v.items[lo:hi]
    return IterV('own', out)


@model('Vec::retain')
def m_vec_retain(m, c, a):
    v = deref(a[0])
    v.items[:] = [x for x in v.items if m.branch(call_closure(m, a[1], [Ptr(x)]))]
    return UNIT


@model('Vec::dedup')
def m_vec_dedup(m, c, a):
    v = deref(a[0]); out = []
    for x in v.items:
        if out and values_eq(m, out[-1].v, x.v): continue
        out.append(x)
    v.items[:] = out
    return UNIT


@model('[]::iter_mut', 'Vec::iter_mut')
def m_iter_mut(m, c, a):
    v = a[0] if isinstance(a[0], SliceRef) else deref(a[0])
    return IterV('ref', list(seq_cells(v)))


@model('[]::concat', '[]::join')
def m_slice_join(m, callee, a):
    v = a[0] if isinstance(a[0], SliceRef) else deref(a[0])
    sep = as_rstr(a[1]).chars if len(a) > 1 else []
    out = []
    for i, x in enumerate(seq_cells(v)):
        if i: out.extend(sep)
        out.extend(as_rstr(x.v).chars)
    return RStr(out)


@model('<String as Extend>::extend')
def m_string_extend(m, c, a):
    st = deref(a[0])
    for v in _drain(m, a[1]):
        v = deref_char(v)
        if isinstance(v, (str, Sym)): st.chars.append(v)
        else: st.chars.extend(as_rstr(v).chars)
    return UNIT


@model('HashMap::entry')
def m_map_entry(m, c, a):
    return Agg('MapEntry', None, None, [deref(a[0]), RStr(as_rstr(a[1]).chars)])


def _default_for(callee):
    # Entry::<K, V>::or_default: V from the generics
    g = callee[callee.index('::<') + 3:] if '::<' in callee else ''
    parts, depth, cur = [], 0, ''
    for ch in g:
        if ch in '<([': depth += 1
        elif ch in '>)]':
            if depth == 0: break
            depth -= 1
        if ch == ',' and depth == 0: parts.append(cur.strip()); cur = ''
        else: cur += ch
    parts.append(cur.strip())
    parts = [x for x in parts if x and not x.startswith("'")]
    v = parts[1] if len(parts) > 1 else ''
    v = v.replace('std::vec::', '').replace('std::string::', '').replace('std::collections::', '')
    if v.startswith('Vec<'): return VecV([])
    if v.startswith('String'): return RStr([])
    if v.startswith('HashMap<'): return MapV()
    if re.match(r'[iu](8|16|32|64|128|size)\b', v): return 0
    if v.startswith('bool'): return False
    if v.startswith('f64'): return 0.0
    if v.startswith('Option<'): return none()
    raise Unsupported('default value for ' + v)


@model('Entry::or_default', 'Entry::or_insert', 'Entry::or_insert_with')
def m_entry_or(m, callee, a):
    e = a[0]; mp, k = e.fields[0].v, e.fields[1].v
    i = map_find(m, mp, k)
    if i < 0:
        key = canon_last(callee)
        v = _default_for(callee) if key == 'or_default' else (a[1] if key == 'or_insert' else call_closure(m, a[1], []))
        mp.e.append((RStr(k.chars), Cell(v))); i = len(mp.e) - 1
    return Ptr(mp.e[i][1])


@model('<HashMap as Extend>::extend')
def m_map_extend(m, c, a):
    mp = deref(a[0]); src = a[1]
    if isinstance(src, MapV): items = [(k, cell.v) for k, cell in src.e]
    elif isinstance(src, IterV):
        items = []
        while True:
            nx = m_iter_next(m, '', [Ptr(Cell(src))])
            if nx.variant == 'None': break
            t = nx.fields[0].v
            items.append((t.fields[0].v, t.fields[1].v))
    else: raise Unsupported('HashMap::extend from %r' % (type(src).__name__,))
    for k, v in items: m_map_insert(m, '', [Ptr(Cell(mp)), k, v])
    return UNIT


@model('HashMap::clear')
def m_map_clear(m, c, a): deref(a[0]).e[:] = []; return UNIT


@model('HashMap::contains_key')
def m_map_contains(m, c, a): return map_find(m, deref(a[0]), a[1]) >= 0


@model('HashMap::remove')
def m_map_remove(m, c, a):
    mp = deref(a[0]); i = map_find(m, mp, a[1])
    if i < 0: return none()
    return some(mp.e.pop(i)[1].v)


@model('HashMap::len')
def m_map_len(m, c, a): return len(deref(a[0]).e)


@model('HashMap::is_empty')
def m_map_is_empty(m, c, a): return len(deref(a[0]).e) == 0


@model('HashMap::with_capacity')
def m_map_wc(m, c, a): return MapV()


@model('HashMap::keys')
def m_map_keys(m, c, a): return IterV('own', [Cell(Ptr(Cell(k))) for k, _ in deref(a[0]).e])


@model('HashMap::values')
def m_map_values(m, c, a): return IterV('own', [Cell(Ptr(cell)) for _, cell in deref(a[0]).e])


@model(re.compile(r'^<.* as (Fn|FnMut|FnOnce)>::call(_mut|_once)?$'))
def m_fn_call(m, callee, a):
    f = a[0]
    while isinstance(f, Ptr) and isinstance(f.cell.v, (Closure, FnItem)): f = f.cell.v
    args = [c.v for c in a[1].fields] if isinstance(a[1], Agg) else ([] if a[1] is UNIT else [a[1]])
    return call_closure(m, f, args)
