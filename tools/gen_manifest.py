#!/usr/bin/env python3
"""Writes /verif/MANIFEST.json from the property modules registered in harness/cli.py."""
import json, os, sys, importlib
ROOT = os.path.dirname(os.path.dirname(os.path.abspath(__file__)))
sys.path.insert(0, ROOT)
from harness.cli import PROPS

props = [json.loads(l) for l in open(os.path.join(ROOT, 'properties.jsonl'))]
NOT_YET = json.load(open(os.path.join(ROOT, 'tools', 'not_applicable.json')))

checks, na = [], []
for p in props:
    pid = p['id']
    if pid in PROPS:
        mod = importlib.import_module('harness.props.' + PROPS[pid])
        checks.append({
            'property_id': pid,
            'quick_cmd': './check %s --tier quick' % pid,
            'thorough_cmd': './check %s --tier thorough' % pid,
            'evidence_file': 'evidence/%s.json' % pid,
            'replay_cmd_template': './check %s --replay {path}' % pid,
            'engine': 'mirsym',
            'level_claimed': {
                'category': 'model_checking',
                'text': 'Bounded symbolic execution of the real code: the MIR rustc emits for /repo\'s current tree is executed by a symbolic '
                        'executor with z3; scalar inputs are symbolic, shapes are enumerated exhaustively within the stated bound, every branch '
                        'is decided by the solver, the property is asserted on every feasible path against an independent reference. '
                        'Bounds (quick): ' + mod.BOUNDS.get('quick', '') + '. Outside the claim: ' + getattr(mod, 'OUTSIDE', ''),
                'design_ref': 'DESIGN.md §5 ' + pid,
            },
            'level_note': 'Trusted: rustc nightly MIR = the program; the executor\'s std models (cross-checked natively on sampled paths every run); '
                          'the reference semantics in harness/. A violation is reported only after it reproduces on the native build.',
            'technique': 'bounded symbolic execution of rustc MIR with an SMT solver (z3), native replay of counterexamples',
        })
    else:
        na.append({'property_id': pid, 'reason': NOT_YET.get(pid, 'no check built')})

man = {
    'version': 1,
    'setup_cmd': './setup.sh',
    'hooks': {
        'guard': 'suiron_verif',
        'enable': 'RUSTFLAGS="--cfg suiron_verif" when building vreplay for C22/C23 (harness/build.py, hooks=True); never needed by the symbolic executor',
        'baseline_off_cmd': 'cd /repo && (cargo nextest run --workspace --no-fail-fast --offline || cargo test --workspace --no-fail-fast --offline -- --test-threads 1)',
        'source_commits': json.load(open(os.path.join(ROOT, 'tools', 'hook_commits.json'))),
        'add_only': True,
    },
    'engines': [{'name': 'mirsym', 'path': 'mirsym/', 'serves_properties': sorted(PROPS),
                 'kind_free_text': 'symbolic executor for rustc MIR text (Python + z3): concrete heap graph, symbolic scalars, '
                                   'solver-decided branching, re-execution forking; harness/ holds drivers, references and per-property harnesses; '
                                   'vreplay/ is the native replayer'}],
    'checks': checks,
    'not_applicable': na,
    'notes': 'See DESIGN.md. Exit codes: 0 held, 1 violation (VIOLATION line, natively reproduced), 2 inconclusive (encoding fault / unsupported construct).',
}
json.dump(man, open(os.path.join(ROOT, 'MANIFEST.json'), 'w'), indent=1)
print('MANIFEST.json: %d checks, %d not applicable' % (len(checks), len(na)))
