"""Exploration engine: runs a property's harness over all solver-separated paths of all its cases,
replays violating paths (and a sample of passing ones) natively, writes evidence, prints the verdict.
"""
import os, sys, json, time, hashlib, traceback, multiprocessing, random

from mirsym.machine import (Machine, PathInfeasible, Unsupported, RustPanic, StepLimit, Sym)
from . import build, native
from .driver import Driver, ScenarioEnd
from . import heap as H

ROOT = os.path.dirname(os.path.dirname(os.path.abspath(__file__)))
_M = None          # per-process machine
_PROP = None
_OPTS = None


class Violation(Exception):
    def __init__(self, key, detail):
        Exception.__init__(self, detail); self.key = key; self.detail = detail


def enc_inputs(inp):
    out = {}
    for k, v in inp.items():
        if isinstance(v, bool): out[k] = {'b': v}
        elif isinstance(v, int): out[k] = {'i': str(v)}
        elif isinstance(v, float): out[k] = {'f': '%016x' % H.f64_bits(v)}
        elif isinstance(v, str): out[k] = {'c': v}
        else: raise ValueError('input %r' % (v,))
    return out


def dec_inputs(d):
    out = {}
    for k, v in d.items():
        if 'b' in v: out[k] = v['b']
        elif 'i' in v: out[k] = int(v['i'])
        elif 'f' in v: out[k] = H.bits_f64(int(v['f'], 16))
        else: out[k] = v['c']
    return out


def _init_worker(prop_name, opts):
    global _M, _PROP, _OPTS
    import importlib
    _PROP = importlib.import_module('harness.props.' + prop_name)
    _OPTS = opts
    mir, src = build.mir_paths()
    _M = Machine(open(mir).read(), src, step_limit=getattr(_PROP, 'STEP_LIMIT', 400_000))


def run_once(m, prop, case, prefix, concrete_inputs=None):
    """one path.  -> (status, info, drv)   status in ok|violation|infeasible|error"""
    m.reset(prefix, concrete_inputs)
    drv = Driver(m)
    try:
        info = prop.run(drv, case) or {}
        return 'ok', info, drv
    except PathInfeasible:
        return 'infeasible', {}, drv
    except Violation as v:
        return 'violation', {'key': v.key, 'detail': v.detail}, drv
    except ScenarioEnd as e:
        kind, msg, idx = e.why
        return 'violation', {'key': '%s in op %s' % (kind, drv.ops[idx][0]), 'detail': '%s: %s (op %d %s)' % (kind, msg, idx, drv.ops[idx][0])}, drv
    except (Unsupported, RustPanic, StepLimit) as e:
        return 'error', {'detail': '%s: %s' % (type(e).__name__, e), 'tb': traceback.format_exc()[-1500:]}, drv
    except Exception as e:
        return 'error', {'detail': 'harness exception %s: %s' % (type(e).__name__, e), 'tb': traceback.format_exc()[-2500:]}, drv


def confirm(m, prop, case, decisions, inputs, want, hooks=False):
    """concrete re-run in mirsym + native run.  want: 'violation' or 'ok'.
    -> (verdict, record)  verdict: confirmed | pass | encoding-fault"""
    status, info, drv = run_once(m, prop, case, decisions, inputs)
    rec = {'case': case, 'decisions': [list(d) for d in decisions], 'inputs': enc_inputs(inputs),
           'mirsym_status': status, 'info': {k: v for k, v in info.items() if k in ('key', 'detail')}}
    if status == 'error':
        rec['fault'] = 'concrete re-run failed: ' + info.get('detail', ''); rec['tb'] = info.get('tb')
        return 'encoding-fault', rec
    if status != want:
        rec['fault'] = 'concrete re-run gives %s, symbolic path gave %s' % (status, want)
        return 'encoding-fault', rec
    sc = drv.scenario_json()
    rec['scenario'] = sc; rec['expected_obs'] = drv.obs; rec['expected_out'] = drv.outs
    tmo = getattr(prop, 'NATIVE_TIMEOUT', 10.0)
    nat = native.run_native(sc, timeout=tmo, hooks=hooks)
    if nat['status'] == 'hang' and not any((o or '').startswith('HANG') for o in drv.obs):
        # the executor predicts no hang: the machine may just be busy; give the native run much more time once
        nat = native.run_native(sc, timeout=tmo * 12, hooks=hooks)
    rec['native_status'] = nat['status']
    if nat['status'] == 'harness-error':
        rec['fault'] = 'vreplay rejected the scenario: ' + nat['stderr']
        return 'encoding-fault', rec
    bad = native.compare(drv.obs, drv.outs, nat)
    if bad:
        rec['fault'] = 'native run differs from the MIR execution: ' + '; '.join(bad[:3])
        rec['native_obs'] = nat['obs']
        return 'encoding-fault', rec
    return ('confirmed' if want == 'violation' else 'pass'), rec


def work_case(case):
    m, prop, opts = _M, _PROP, _OPTS
    t0 = time.time()
    res = {'case_id': case.get('id'), 'paths': 0, 'infeasible': 0, 'violations': [], 'errors': [], 'faults': [],
           'native': 0, 'tags': {}, 'samples': [], 'decisions': 0, 'nontrivial': 0}
    s0 = dict(m.stats); steps0 = m.total_steps
    work = [[]]
    max_paths = opts.get('max_paths_per_case', 20000)
    sc_mod = opts.get('selfcheck_mod', 50)
    seen_keys = {}
    while work:
        prefix = work.pop()
        status, info, drv = run_once(m, prop, case, prefix)
        pend = list(m.pending)
        decisions = list(m.decisions)
        work.extend(pend)
        if status == 'infeasible':
            res['infeasible'] += 1; continue
        res['paths'] += 1
        res['decisions'] += len(decisions)
        if res['paths'] > max_paths:
            res['errors'].append({'detail': 'more than %d paths in case %s' % (max_paths, case.get('id'))}); break
        if status == 'error':
            info['case'] = case; info['decisions'] = [list(d) for d in decisions]
            res['errors'].append(info); continue
        for t in info.get('tags', ()): res['tags'][t] = res['tags'].get(t, 0) + 1
        if info.get('nontrivial', True): res['nontrivial'] += 1
        h = int(hashlib.sha1((json.dumps(case, sort_keys=True, default=str) + repr(decisions) + str(opts.get('seed', 0))).encode()).hexdigest()[:8], 16)
        hooks = bool(getattr(prop, 'NEEDS_HOOKS', False))
        if status == 'violation':
            key = info['key']
            n = seen_keys.get(key, 0); seen_keys[key] = n + 1
            if n >= opts.get('confirm_per_key', 2):
                res['violations'].append({'key': key, 'detail': info['detail'], 'confirmed': 'not-replayed'}); continue
            try:
                inputs = m.model_inputs()
                verdict, rec = confirm(m, prop, case, decisions, inputs, 'violation', hooks)
            except Exception as e:
                verdict, rec = 'encoding-fault', {'fault': 'confirm raised %s: %s' % (type(e).__name__, e), 'tb': traceback.format_exc()[-1500:]}
            res['native'] += 1
            rec['key'] = key; rec['detail'] = info['detail']
            if verdict == 'confirmed':
                res['violations'].append({'key': key, 'detail': info['detail'], 'confirmed': 'native', 'rec': rec})
            else:
                res['faults'].append(rec)
        else:
            if h % sc_mod == 0:
                try:
                    inputs = m.model_inputs()
                    verdict, rec = confirm(m, prop, case, decisions, inputs, 'ok', hooks)
                except Exception as e:
                    verdict, rec = 'encoding-fault', {'fault': 'selfcheck raised %s: %s' % (type(e).__name__, e), 'tb': traceback.format_exc()[-1500:]}
                res['native'] += 1
                if verdict != 'pass':
                    res['faults'].append(rec)
                elif len(res['samples']) < 1:
                    res['samples'].append({'case': case.get('id'), 'ops': rec['scenario']['ops'][:12], 'obs': rec['expected_obs'][:12],
                                           'note': info.get('note')})
    res['stats'] = {k: m.stats[k] - s0.get(k, 0) for k in m.stats}
    res['steps'] = m.total_steps + m.steps - steps0
    res['wall'] = time.time() - t0
    return res


def load_known(pid):
    p = os.path.join(ROOT, 'known_findings.json')
    if not os.path.exists(p): return []
    d = json.load(open(p))
    return [e for e in d.get('findings', []) if e.get('property') == pid and e.get('status', 'open') == 'open']


def match_known(known, key):
    import re
    for e in known:
        if e.get('key') == key: return e
        if e.get('key_regex') and re.fullmatch(e['key_regex'], key): return e
    return None


def main(pid, prop_name, tier, seed, replay=None, jobs=None):
    import importlib
    t0 = time.time()
    prop = importlib.import_module('harness.props.' + prop_name)
    binfo = build.prepare(hooks=getattr(prop, 'NEEDS_HOOKS', False))
    opts = dict(getattr(prop, 'OPTS', {}).get(tier, {}))
    opts['seed'] = seed
    if replay:
        return do_replay(pid, prop, prop_name, replay, opts)
    cases = prop.cases(tier, seed)
    budget = opts.get('budget_s', 300 if tier == 'quick' else 3000)
    jobs = jobs or int(os.environ.get('VERIF_JOBS', '0')) or os.cpu_count() or 4
    jobs = max(1, min(jobs, len(cases)))
    agg = {'paths': 0, 'infeasible': 0, 'violations': [], 'errors': [], 'faults': [], 'native': 0, 'tags': {}, 'samples': [],
           'decisions': 0, 'nontrivial': 0, 'steps': 0, 'stats': {}, 'cases_done': 0}
    covered, models_used = {}, {}
    done_all = True
    procs = []
    if jobs == 1:
        _init_worker(prop_name, opts)
        it = ((work_case(c), dict(_M.covered), dict(_M.models_used)) for c in cases)
    else:
        ctx = multiprocessing.get_context('fork')
        chunk = max(1, min(64, len(cases) // (jobs * 8)))
        chunks = [cases[i:i + chunk] for i in range(0, len(cases), chunk)]
        tq, rq = ctx.Queue(), ctx.Queue(maxsize=jobs * 4)
        for ch in chunks: tq.put(ch)
        for _ in range(jobs): tq.put(None)
        for _ in range(jobs):
            p = ctx.Process(target=_worker_loop, args=(prop_name, opts, tq, rq), daemon=True)
            p.start(); procs.append(p)
        def results():
            live = jobs
            while live:
                item = rq.get()
                if item is None: live -= 1
                elif isinstance(item, str): raise SystemExit('worker failed: ' + item)
                else:
                    for r in item: yield r
        it = results()
    try:
        for r, cov, mu in it:
            agg['cases_done'] += 1
            for k in ('paths', 'infeasible', 'native', 'decisions', 'nontrivial', 'steps'): agg[k] += r[k]
            for k in ('violations', 'errors', 'faults'): agg[k].extend(r[k])
            for k, v in r['tags'].items(): agg['tags'][k] = agg['tags'].get(k, 0) + v
            for k, v in r['stats'].items(): agg['stats'][k] = agg['stats'].get(k, 0) + v
            if len(agg['samples']) < 5: agg['samples'].extend(r['samples'])
            for k, v in cov.items(): covered[k] = max(covered.get(k, 0), v)
            for k, v in mu.items(): models_used[k] = max(models_used.get(k, 0), v)
            if time.time() - t0 > budget:
                done_all = False; break
            if len(agg['errors']) > 20 or len(agg['faults']) > 20: done_all = False; break
    finally:
        for p in procs:
            try: p.kill()
            except Exception: pass
    return finish(pid, prop, tier, seed, binfo, cases, agg, covered, models_used, done_all, time.time() - t0)


def _worker_loop(prop_name, opts, tq, rq):
    try:
        import ctypes, signal
        ctypes.CDLL('libc.so.6').prctl(1, signal.SIGKILL)   # PR_SET_PDEATHSIG: die with the parent
    except Exception:
        pass
    try:
        _init_worker(prop_name, opts)
        while True:
            ch = tq.get()
            if ch is None: break
            out = []
            for c in ch:
                out.append((work_case(c), dict(_M.covered), dict(_M.models_used)))
            rq.put(out)
        rq.put(None)
    except BaseException as e:
        rq.put('%s: %s\n%s' % (type(e).__name__, e, traceback.format_exc()[-1500:]))


def finish(pid, prop, tier, seed, binfo, cases, agg, covered, models_used, done_all, wall):
    known = load_known(pid)
    lines = []
    new_viol = []
    known_hit = {}
    for v in agg['violations']:
        e = match_known(known, v['key'])
        if e is not None:
            known_hit.setdefault(e['id'], [e, 0]); known_hit[e['id']][1] += 1
        else:
            new_viol.append(v)
    # unconfirmed-only keys: a key all of whose violations were 'not-replayed' cannot happen (first ones are replayed)
    confirmed_keys = {v['key'] for v in new_viol if v['confirmed'] == 'native'}
    report = {}
    os.makedirs(os.path.join(ROOT, 'replays', pid), exist_ok=True)
    for v in new_viol:
        if v['confirmed'] != 'native': continue
        if v['key'] in report: continue
        hid = hashlib.sha1((pid + v['key']).encode()).hexdigest()[:12]
        path = os.path.join(ROOT, 'replays', pid, hid + '.json')
        rec = dict(v['rec']); rec['property'] = pid
        json.dump(rec, open(path, 'w'), indent=1, ensure_ascii=False, default=str)
        report[v['key']] = path
    anchors_missing = [a for a in getattr(prop, 'ANCHORS', []) if not any(a in k for k in covered)]
    witnesses_missing = [w for w in getattr(prop, 'WITNESSES', {}).get(tier, getattr(prop, 'WITNESSES', {}).get('all', [])) if agg['tags'].get(w, 0) == 0] if done_all else []
    inconclusive = []
    if agg['errors']: inconclusive.append('%d paths ended in an unsupported construct / harness error, e.g. %s' % (len(agg['errors']), agg['errors'][0].get('detail')))
    if agg['faults']: inconclusive.append('%d native comparisons disagree with the MIR execution (encoding fault), e.g. %s' % (len(agg['faults']), agg['faults'][0].get('fault')))
    if anchors_missing: inconclusive.append('anchor functions never executed: %s' % anchors_missing)
    if witnesses_missing: inconclusive.append('witness classes never reached (vacuity guard): %s' % witnesses_missing)
    if agg['paths'] == 0: inconclusive.append('no path explored')
    for eid, (e, n) in sorted(known_hit.items()):
        lines.append('KNOWN-FINDING: property=%s %s [%s] (%d paths)' % (pid, e['what'], eid, n))
    for key, path in report.items():
        lines.append('VIOLATION property=%s replay=%s' % (pid, path))
        lines.append('  ' + key + ' :: ' + next(v['detail'] for v in new_viol if v['key'] == key)[:600])
    st = agg['stats']
    ev = {
        'property_id': pid, 'tier': tier, 'seed': seed, 'level': 'model_checking',
        'coverage': {
            'states': agg['paths'], 'transitions': max(1, agg['decisions']),
            'traces_validated_against_impl': agg['native'],
            'samples': agg['samples'][:5] or [{'note': 'no sample recorded'}],
            'evaluations': agg['paths'], 'distinct_nontrivial': agg['nontrivial'],
            'rule': getattr(prop, 'RULE', 'one evaluation = one solver-separated execution path of the harness over the real MIR; '
                            'non-trivial = the path reached the property assertion with the code under test executed'),
            'exhaustive': bool(done_all),
            'cases_planned': len(cases), 'cases_completed': agg['cases_done'],
            'infeasible_paths_pruned': agg['infeasible'],
            'bounds': getattr(prop, 'BOUNDS', {}).get(tier, ''),
            'outside_claim': getattr(prop, 'OUTSIDE', ''),
            'functions_encoded': {'mir_bodies_executed': len(covered), 'std_models_used': len(models_used),
                                  'anchor_bodies': sorted(k for k in covered if any(a in k for a in getattr(prop, 'ANCHORS', [])))[:40],
                                  'mir_statements_executed': agg['steps']},
            'queries_discharged': {'solver_calls': st.get('solver_calls', 0), 'sat': st.get('sat', 0), 'unsat': st.get('unsat', 0),
                                   'forks': st.get('forks', 0)},
            'solver_time_s': round(st.get('solver_s', 0.0), 3),
            'witness_classes': agg['tags'],
            'mir': binfo,
            'known_findings_matched': {k: v[1] for k, v in known_hit.items()},
            'inconclusive': inconclusive,
        },
        'assumptions': getattr(prop, 'ASSUMPTIONS', []) + build.COMMON_ASSUMPTIONS,
        'wall_s': round(wall, 2),
        'violations': len(report),
    }
    evdir = os.path.join(ROOT, 'evidence' if build.REPO == '/repo' else 'alt-evidence')      # runs on a scratch copy never touch the evidence
    os.makedirs(evdir, exist_ok=True)
    json.dump(ev, open(os.path.join(evdir, pid + '.json'), 'w'), indent=1, ensure_ascii=False, default=str)
    for l in lines: print(l)
    print('%s %s: %d cases, %d paths (%d infeasible pruned), %d solver calls (%.1fs), %d native replays, %.1fs wall%s' % (
        pid, tier, agg['cases_done'], agg['paths'], agg['infeasible'], st.get('solver_calls', 0), st.get('solver_s', 0.0),
        agg['native'], wall, '' if done_all else ' [budget reached: bound reduced, see evidence]'))
    if report:
        for s in inconclusive: print('INCONCLUSIVE (besides the violations): ' + s)
        if inconclusive:
            json.dump({'errors': agg['errors'][:10], 'faults': agg['faults'][:10]}, open(os.path.join(build.CACHE, 'last_inconclusive_%s.json' % pid), 'w'), indent=1, default=str)
        return 1
    if inconclusive:
        for s in inconclusive: print('INCONCLUSIVE: ' + s)
        dbg = os.path.join(build.CACHE, 'last_inconclusive_%s.json' % pid)
        json.dump({'errors': agg['errors'][:10], 'faults': agg['faults'][:10]}, open(dbg, 'w'), indent=1, default=str)
        print('details: ' + dbg)
        return 2
    return 0


def do_replay(pid, prop, prop_name, path, opts):
    rec = json.load(open(path))
    _init_worker(prop_name, opts)
    decisions = [tuple(d) for d in rec['decisions']]
    inputs = dec_inputs(rec['inputs'])
    verdict, rec2 = confirm(_M, prop, rec['case'], decisions, inputs, 'violation', bool(getattr(prop, 'NEEDS_HOOKS', False)))
    print('replay of %s: %s' % (path, 'violation reproduced' if verdict == 'confirmed' else 'not reproduced on the current tree'))
    if verdict == 'confirmed':
        print('VIOLATION property=%s replay=%s' % (pid, path))
        print('  ' + rec2['info'].get('key', '') + ' :: ' + rec2['info'].get('detail', '')[:600])
        return 1
    print('  ' + str(rec2.get('fault', rec2.get('mirsym_status'))))
    return 0
