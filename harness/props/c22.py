"""C22 - a query's answers do not depend on earlier queries."""
import itertools
from ..engine import Violation
from ..driver import ScenarioEnd
from .. import progs as P
from .. import refsld as S
from .. import refunify as R
from ..progs import V, A, C, L, I, gc, gb, AND, OR, NOT, U, F, X, Y, Z, W
from . import prog_common as PC
from .c23 import fmt_answer, TIMEOUT_MSG

ANCHORS = ['make_query', 'make_base_node', 'next_solution', 'solve', 'solve_all', 'start_query_timer', 'query_stopped', 'count_rules', 'clear_id']
WITNESSES = {'all': ['history-abandoned', 'history-exhausted-and-reasked', 'history-timed-out', 'history-real-expiry', 'exhausted-query-reasked-during-probe', 'probe-built-before-history', 'compared-with-first-run', 'probe-next_solution', 'probe-solve', 'probe-solve_all', 'has-answers']}
OPTS = {'quick': {'selfcheck_mod': 30, 'budget_s': 280}, 'thorough': {'selfcheck_mod': 300, 'budget_s': 3000}}
STEP_LIMIT = 2_500_000
NEEDS_HOOKS = True
BOUNDS = {
    'quick': 'one knowledge base (t1..t6 over the base facts: conjunction, disjunction, recursion, not, cut, arithmetic); histories of 0-2 earlier operations, each = one of 4 queries run by one of: '
             'next_solution x1 then abandoned, next_solution to exhaustion then asked twice more, solve once, solve_all, solve_all with the (modelled) timer firing at its 1st / 3rd observation, '
             'solve with the timer firing at its 2nd observation, next_solution x1 followed by a real expiry of a timer started with start_query_timer and its cancel_timer; then the probe (each of 6 queries - one with two variables against a head with a constant, one whose answers hold unbound variables - built with make_query after the history, and 4 source texts incl. a zero-arity query built with parse_query) run by next_solution, by solve and by solve_all, and by next_solution with every exhausted query of the history asked again between two answers of the probe; also with the probe and its node built first, then a real timer expiry, then driven by solve / solve_all; '
             'the probe\'s answers and output must equal the reference answers of that query; solve_all probes are also asked once before the history and must return the very same strings afterwards',
    'thorough': 'histories of up to 3 operations',
}
OUTSIDE = 'resuming an older, unfinished solution node after a newer query was constructed (one query at a time, as documented; asking an exhausted older query again is inside the claim); a query that waits while another query is constructed (make_query restarts the variable numbering: one query at a time, as documented) or that is driven by bare next_solution after a timeout (the stop flag is lowered by the query constructors and by solve / solve_all, not by next_solution: test_query_timer pins that the flag stays up after a timeout); real elapsed time'
ASSUMPTIONS = ['the timer firing is the modelled event / the cfg(suiron_verif) countdown hook natively',
               'a timer that a driver call leaves running (never cancelled) is allowed to fire at any of the first observations of the next query']

KB = [
    (C('t1', X), AND(gc('p', X), gc('q', X))),
    (C('t2', X), OR(gc('q', X), gc('n', X))),
    (C('t3', X), gc('member', X, L(A('a'), A('b')))),
    (C('t4', X), AND(gc('p', X), NOT(gc('q', X)))),
    (C('t5', X), AND(gc('p', X), gb('!'))), (C('t5', A('z')), None),
    (C('t6', X), AND(gc('n', Y), U(X, F('add', Y, I(1))))),
    (C('t7', X), AND(gc('h', X), gc('eq', Y, I(7)), gc('pr', Y, Z, W))),
    (C('ready'), gc('p', A('a'))),
    # a head with a constant in a variable position and a variable that only the body has: its fresh ids must not meet the query's
    (C('t8', X, A('k')), gc('r', X, Z)),
]
QUERIES = [C('t1', X), C('t3', X), C('t4', X), C('t6', X), C('t8', X, Y), C('t7', X)]
HQ = [C('t2', X), C('t3', X), C('t5', X), C('t1', A('b'))]
HOPS = ['next1', 'exhaust', 'solve', 'solve_all', 'solve_all_fire0', 'solve_all_fire2', 'solve_fire1', 'expire']
PROBES = ['next_solution', 'solve', 'solve_all']
TEXT_PROBES = ['t1($X)', 'ready', 't3($X).', 'ready.']      # built by parse_query from source text


def cases(tier, seed):
    out = []
    hist1 = [(q, op) for q in range(len(HQ)) for op in HOPS]
    hists = [[]] + [[h] for h in hist1]
    two = [[a, b] for a in hist1 for b in hist1 if (a[1].endswith(('fire0', 'fire2', 'fire1', 'expire')) or b[1].endswith(('fire0', 'fire2', 'fire1')) or a[1] == 'exhaust')]
    hists += two[::3] if tier == 'quick' else two
    if tier != 'quick':
        three = [[a, b, c] for a in hist1[::3] for b in hist1[::4] for c in hist1[::5]]
        hists += three
    for h in hists:
        if len(h) <= 1:
            for ti in range(len(TEXT_PROBES)):
                for pr in PROBES[:2]:
                    out.append({'id': 'history %s then probe %r (parse_query) via %s' % ([('%s:%s' % (P.ttext(HQ[q]), op)) for q, op in h], TEXT_PROBES[ti], pr), 'hist': h, 'text': ti, 'probe': 0, 'via': pr})
        for qi in range(len(QUERIES)):
            for pr in PROBES + (['next_solution+reask'] if any(op == 'exhaust' for _, op in h) else []):
                if len(h) == 2 and (qi + len(out)) % 2: continue
                out.append({'id': 'history %s then probe %s via %s' % ([('%s:%s' % (P.ttext(HQ[q]), op)) for q, op in h], P.ttext(QUERIES[qi]), pr), 'hist': h, 'probe': qi, 'via': pr})
                if pr in ('solve', 'solve_all') and len(h) == 1 and h[0][1] == 'expire' and h[0][0] == 0:
                    # the probe (query and base node) is built, then a timer really expires (no other query is constructed in between: that
                    # would restart the variable numbering under the waiting probe, which the crate documents as unsupported), then it is driven
                    out.append({'id': 'probe %s built first, history %s, then driven via %s' % (P.ttext(QUERIES[qi]), [('%s:%s' % (P.ttext(HQ[q]), op)) for q, op in h], pr),
                                'hist': h, 'probe': qi, 'via': pr, 'prebuilt': True})
    return out


def run(drv, case):
    m = drv.m
    syms = {}
    base = [P.inst(m, c, syms) for c in PC.needed_base(KB)]
    kbc = base + [P.inst(m, c, syms) for c in KB]
    probe = QUERIES[case['probe']]
    if 'text' in case:
        txt = TEXT_PROBES[case['text']]
        probe = {'t1($X)': C('t1', X), 'ready': C('ready'), 't3($X).': C('t3', X), 'ready.': C('ready')}[txt]
    desc = case['id']
    try:
        ref = P.ref_search(m, kbc, probe, 10)
    except S.Outside:
        return {'tags': ['outside-claim'], 'nontrivial': False}
    kb = P.build_kb(drv, kbc)
    tags = set()
    exhausted_nodes = []
    pre = None
    baseline = None
    try:
        if case['via'] == 'solve_all' and 'text' not in case and case['hist']:
            # the probe asked once before anything else: the very same strings must come back after the history (unbound variables
            # in answers are printed with their ids, so this also pins that the numbering starts afresh for every query)
            bq = drv.query([drv.term(t) for t in probe[1]])
            baseline = drv.solve_all(drv.base(bq, kb))
            if m.timer is not None and m.timer.get('armed'): baseline = None
        if case.get('prebuilt'):
            pq = drv.query([drv.term(t) for t in probe[1]])
            pre = (pq, drv.base(pq, kb))
            tags.add('probe-built-before-history')
        for qi, op in case['hist']:
            if pre is not None:
                drv.expire(); tags.add('history-timed-out'); tags.add('history-real-expiry'); continue
            hq = HQ[qi]
            q = drv.query([drv.term(t) for t in hq[1]])
            node = drv.base(q, kb)
            if op == 'next1':
                drv.next(node); tags.add('history-abandoned')
            elif op == 'exhaust':
                for i in range(12):
                    r = drv.next(node)
                    if r.h is None: break
                drv.next(node); drv.next(node); tags.add('history-exhausted-and-reasked')
                if r.h is None: exhausted_nodes.append(node)
            elif op == 'expire':
                drv.next(node); drv.expire(); tags.add('history-timed-out'); tags.add('history-real-expiry')
            elif op == 'solve': drv.solve(node)
            elif op == 'solve_all': drv.solve_all(node)
            else:
                n = int(op[-1])
                drv.stop_at(n)
                if op.startswith('solve_all'): res = drv.solve_all(node)
                else: res = [drv.solve(node)]
                drv.stop_at(-1)
                if res and res[-1] == TIMEOUT_MSG: tags.add('history-timed-out')
        # a timer that an earlier driver call left running may still fire: during the probe, at any observation
        leaked = m.timer is not None and m.timer.get('armed')
        # the probe, built after the history with the query constructor
        if pre is not None:
            q, node = pre
        elif 'text' in case:
            q, res = drv.parse('query', TEXT_PROBES[case['text']])
            if res[0] != 'ok': raise Violation('probe-rejected', '%s: parse_query rejects the probe' % desc)
            node = drv.base(q, kb)
        else:
            q = drv.query([drv.term(t) for t in probe[1]])
            node = drv.base(q, kb)
        if leaked:
            drv.stop_at(m.choose(3))
            tags.add('leaked-timer-fires')
        qv = drv.dump(q)
        via = case['via']
        reask = via.endswith('+reask')
        if reask: via = 'next_solution'; tags.add('exhausted-query-reasked-during-probe')
        tags.add('probe-' + via)
        if via == 'next_solution':
            run = P.Run(); run.answers, run.outs, run.exhausted = [], [], False
            for i in range(11):
                r = drv.next(node)
                run.outs.append(drv.outs[-1])
                if r.h is None: run.exhausted = True; break
                run.answers.append(drv.answer(q, r))
                if reask:
                    # an older query that is already exhausted is asked once more between two answers of the probe: it has no more answers
                    # and the probe goes on as if nothing had happened
                    for old in exhausted_nodes:
                        if drv.next(old).h is not None: raise Violation('exhausted-query-answers-again', '%s: an exhausted query gives another answer' % desc)
            problem = P.compare_runs(m, run, ref, desc)
            if problem: raise Violation('probe-' + problem[0], problem[1])
            if run.answers: tags.add('has-answers')
        else:
            # strings: compare with the strings of the reference answers
            want = []
            for a in ref[0]:
                parts = []
                for i, t in enumerate(qv[1][1][1:], start=1):
                    if t[0] == 'var': parts.append((t[2], a[1][i]))
                want.append(parts)
            if via == 'solve_all':
                got = drv.solve_all(node)
            else:
                got = []
                for i in range(len(want) + 2):
                    s = drv.solve(node)
                    if s == 'No more.': break
                    got.append(s)
                    if s == TIMEOUT_MSG: break
            if len(got) != len(want) or (got and got[-1] == TIMEOUT_MSG):
                raise Violation('probe-wrong-number-of-answers', '%s: the probe returns %r; the query has %d answer(s): %s' % (
                    desc, got, len(want), ' | '.join(R.show(a) for a in ref[0])))
            for s, parts in zip(got, want):
                try:
                    exp = ', '.join('%s = %s' % (nm, S.display(v)) for nm, v in parts)
                except S.Outside:
                    continue      # symbolic or unbound values: compared by the next_solution probe
                if s != exp:
                    raise Violation('probe-wrong-answer', '%s: the probe returns %r, expected %r' % (desc, s, exp))
            if got: tags.add('has-answers')
            if baseline is not None and not leaked and got != baseline:
                raise Violation('probe-differs-from-first-run', '%s: asked first the probe returned %r, after the history %r' % (desc, baseline, got))
            if baseline is not None: tags.add('compared-with-first-run')
    except ScenarioEnd as e:
        raise Violation('history-%s' % e.why[0], '%s: %s' % (desc, e.why[1][:200]))
    return {'tags': list(tags), 'note': desc, 'hooks': True}
