"""C15 - engine-built lists hold exactly their elements."""
import itertools
from mirsym.machine import Sym
from ..engine import Violation
from .. import refunify as R
from .. import universe as U
from .. import heap as H
from . import bip_common as B
from .unify_common import struct_eq, build_pterm

ANCHORS = ['make_linked_list', 'parse_linked_list', 'link_front', 'recreate_variables', 'next_solution_append', 'filter']
WITNESSES = {'all': ['constructor', 'constructor-splice', 'constructor-tail', 'renamed', 'parsed', 'append-result', 'filter-result', 'chained-bound-tails', 'list-valued-last', 'empty-list-last']}
OPTS = {'quick': {'selfcheck_mod': 25, 'budget_s': 280}, 'thorough': {'selfcheck_mod': 200, 'budget_s': 2400}}
BOUNDS = {
    'quick': 'element sequences of length 0-3 over {a, symbolic i64, 1.5, $V1, $_, f(a), [b], [[c] | $V2]-free nested [b, c], []} and of length 4-5 over {a, [b], [], $V1}, with and without a tail variable; 6 sequences with atoms outside ASCII (é, ü, Δ, 日本) and a tail variable named $Ñu, and `$_` as the tail (constructor and renaming); '
             'for each: make_linked_list (vbar false/true; a list-valued last term is the documented splice), recreate_variables, parse_linked_list of the canonical text, '
             'append(L, Out), include($_, L, Out), the latter two also with L given in three pieces joined by two bound tail variables; every result must be well formed (node chain ending in the empty node, count = remaining elements, tail_var only last) and hold '
             'exactly the expected elements; it is also unified with the reference list in both orders',
    'thorough': 'lengths 0-4 over the full element set, 5 over the reduced one, plus append of two lists and exclude with a non-matching filter',
}
OUTSIDE = 'sequences longer than 5; a tail marker on a non-variable term'
ASSUMPTIONS = ['the reference list is the node chain the parser builds (link_front onto the empty node), checked structurally here']

ELEMS = [['a'], ['i'], ['r', 1.5], ['v', 1], ['_'], ['f', ['a']], ['l', 'p', [['b']], None], ['l', 'p', [['b'], ['q', 'c']], None], ['e']]
ELEMS_SMALL = [['a'], ['l', 'p', [['b']], None], ['e'], ['v', 1]]
TAIL = ['v', 3]


def seqs(tier):
    full = 3 if tier == 'quick' else 4
    out = [[]]
    for n in range(1, full + 1):
        out += [list(c) for c in itertools.product(ELEMS, repeat=n)]
    for n in range(full + 1, 6):
        out += [list(c) for c in itertools.product(ELEMS_SMALL, repeat=n)]
    return out


def cases(tier, seed):
    out = []
    for s in seqs(tier):
        for tail in (False, True):
            if tail and not s: continue
            for fam in ('mk', 'recreate', 'parse', 'append', 'include'):
                if tier == 'quick' and len(s) == 3 and fam in ('append', 'include') and tail: continue
                out.append({'id': '%s [%s%s]' % (fam, ', '.join(U.text(x) for x in s), ' | $V3' if tail else ''), 'fam': fam, 'elems': s, 'tail': tail})
    # append / include on lists whose tail variable is bound to a list whose tail variable is bound again
    for n in (3, 4):
        for s in itertools.product(ELEMS_SMALL[:3] + [['i']], repeat=n):
            for split in ((1, 2), (1, 3), (2, 3), (0, 2)):
                if split[1] > n: continue
                for fam in ('append', 'include'):
                    if fam == 'include' and (sum(map(ord, repr(s))) + split[0]) % 3: continue
                    out.append({'id': '%s [%s] split %s' % (fam, ', '.join(U.text(x) for x in s), split), 'fam': fam, 'elems': list(s), 'tail': False, 'split': list(split)})
    # atoms and a tail variable whose names are outside ASCII (2- and 3-byte characters)
    na = [[['q', 'é']], [['q', 'é'], ['q', 'ü']], [['a'], ['q', '日本']], [['l', 'p', [['q', 'é']], None], ['b']], [['q', 'Δ'], ['i'], ['q', 'é']], [['a'], ['b']]]
    for s in na:
        for tailname in (None, '$V3', '$Ñu', '$_'):
            for fam in ('mk', 'recreate', 'parse', 'append'):
                if tailname and fam == 'append': continue
                if tailname == '$_' and fam == 'parse': continue      # (the parser does not take `| $_`; the constructor does)
                out.append({'id': '%s [%s%s]' % (fam, ', '.join(U.text(x) for x in s), ' | ' + tailname if tailname else ''), 'fam': fam, 'elems': s, 'tail': bool(tailname), 'tailname': tailname})
    return out


def canon_text(sh):
    k = sh[0]
    if k == 'r': return repr(float(sh[1]))
    if k == 'l':
        s = ', '.join(canon_text(x) for x in sh[2])
        if sh[3] is not None: s += ' | ' + canon_text(sh[3])
        return '[' + s + ']'
    if k in ('f', 'g'): return k + '(' + ', '.join(canon_text(x) for x in sh[1:]) + ')'
    return U.text(sh)


def check_list(m, got, want_elems, want_tail, what, desc, rename=False):
    """got: raw pterm; must be well formed and hold exactly the wanted elements"""
    if got[0] != 'node':
        raise Violation(what + ':not-a-list', '%s: the result is not a list: %s' % (desc, R.show(got)))
    wf = R.wellformed(got)
    if wf is not None:
        raise Violation(what + ':ill-formed', '%s: the result is ill-formed (%s): %s' % (desc, wf, H.dump(got) if not H.has_sym(got) else R.show(got)))
    a = R.abst(got)
    want = ('lst', tuple(want_elems), want_tail)
    fwd, bwd = {}, {}
    if not R.alpha_eq(m, a, want, fwd, bwd) or (not rename and any(k != v for k, v in fwd.items())):
        raise Violation(what + ':wrong-elements', '%s: the result holds %s, expected %s' % (desc, R.show(a), R.show(want)))
    # nested lists must be well formed too
    for e in walk_nodes(got):
        wf = R.wellformed(e)
        if wf is not None:
            raise Violation(what + ':ill-formed-element', '%s: an element list is ill-formed (%s)' % (desc, wf))
    return a


def walk_nodes(t):
    """nested list terms that occur as elements"""
    out = []
    cur = t
    while cur[0] == 'node' and cur[1][0] != 'nil':
        if cur[1][0] == 'node': out.append(cur[1]); out += walk_nodes(cur[1])
        if cur[1][0] == 'cplx':
            for x in cur[1][1]:
                if x[0] == 'node': out.append(x)
        cur = cur[2]
    return out


def both_orders(drv, m, res_reg, ref_term, what, desc):
    ss = drv.ss0()
    tref = drv.term(ref_term)
    for a, b, nm in ((res_reg, tref, 'result = reference'), (tref, res_reg, 'reference = result')):
        r = drv.unify(a, b, ss)
        if r.h is None:
            raise Violation(what + ':does-not-unify', '%s: %s fails (reference list %s)' % (desc, nm, R.show(R.abst(H.plist(ref_term[1], ref_term[2])) if ref_term[0] == 'plist' else ref_term)))


def run(drv, case):
    m = drv.m
    elems = [U.inst(m, e, 'e%d' % i) for i, e in enumerate(case['elems'])]
    tail = U.inst(m, TAIL, 't') if case['tail'] else None
    tailname = case.get('tailname') or '$V3'
    if tail is not None: tail = ('var', tail[1], tailname) if tailname != '$_' else ('anon',)
    ael = [build_pterm(e) for e in elems]
    fam = case['fam']
    desc = case['id']
    tags = []
    last = case['elems'][-1] if case['elems'] else None
    if last is not None and last[0] == 'l': tags.append('list-valued-last')
    if last is not None and last[0] == 'e': tags.append('empty-list-last')
    ref = ('plist', tuple(elems), tail)
    if fam == 'mk':
        items = elems + ([tail] if tail is not None else [])
        res = drv.mklist(tail is not None, [drv.term(x) for x in items])
        got = drv.dump(res)
        tags.append('constructor')
        if tail is None and last is not None and last[0] in ('l', 'e'):
            # documented splice: [a | [b, c]]
            sp = ael[-1]
            want_e, want_t = ael[:-1] + list(sp[1]), sp[2]
            tags.append('constructor-splice')
            ref = ('plist', tuple(elems[:-1]) + tuple(elems[-1][1]), elems[-1][2])
        else:
            want_e, want_t = ael, tail
            if tail is not None: tags.append('constructor-tail')
        if not case['elems']:
            want_e, want_t = [], None
        if len(case['elems']) == 1 and tail is None and last[0] in ('l', 'e'):
            # a single list-valued term: the statement does not say whether it is "trailing"; both readings are accepted
            try:
                check_list(m, got, want_e, want_t, 'constructor', desc)
            except Violation:
                check_list(m, got, ael, None, 'constructor', desc)
                ref = ('plist', tuple(elems), None)
        else:
            check_list(m, got, want_e, want_t, 'constructor', desc)
        both_orders(drv, m, res, ref, 'constructor', desc)
    elif fam == 'recreate':
        src = drv.term(ref)
        res = drv.recreate(src)
        got = drv.dump(res)
        tags.append('renamed')
        check_list(m, got, ael, tail, 'renamed', desc, rename=True)
    elif fam == 'parse':
        text = '[' + ', '.join(canon_text(e) for e in case['elems']) + (' | ' + tailname if case['tail'] else '') + ']'
        # symbolic leaves are concretised for the text (digits of the integer)
        vals = {}
        conc = []
        for i, (e, sh) in enumerate(zip(elems, case['elems'])):
            conc.append(e)
        if any(sh[0] == 'i' for sh in case['elems']):
            parts = []
            for e, sh in zip(elems, case['elems']):
                if sh[0] == 'i':
                    v = e[1]
                    if isinstance(v, Sym):
                        import z3
                        m.assume(Sym(z3.And(v.e >= 0, v.e <= 9), 'bool'))
                        v = m.concretize(v)
                    parts.append(str(v))
                else: parts.append(canon_text(sh))
            text = '[' + ', '.join(parts) + (' | ' + tailname if case['tail'] else '') + ']'
        res, out = drv.parse('list', text)
        if out[0] != 'ok':
            raise Violation('parsed:rejected', '%s: parse_linked_list rejects %r' % (desc, text))
        got = drv.dump(res)
        tags.append('parsed')
        # parsed variables have id 0
        z = lambda t: zero_ids(t)
        check_list(m, got, [z(x) for x in ael], z(tail) if tail is not None else None, 'parsed', desc)
    else:
        kb = drv.kb([])
        ss = drv.ss0()
        out = ('var', 9, '$Out')
        L = ref
        if case.get('split'):
            i, j = case['split']
            env = B.Env(drv, first_id=20)
            tv, uv = env.var('$T'), env.var('$U')
            env.bind(uv, ('plist', tuple(elems[j:]), None))
            env.bind(tv, ('plist', tuple(elems[i:j]), uv))
            L = ('plist', tuple(elems[:i]), tv) if i else tv
            ss = env.ss
            tags.append('chained-bound-tails')
        goal = ('gb', 'append', (L, out)) if fam == 'append' else ('gb', 'include', (('anon',), L, out))
        r1, r2 = B.run_goal(drv, kb, goal, ss)
        if r1.h is None:
            raise Violation(fam + ':fails', desc + ': the goal fails')
        tout = drv.term(out)
        got = drv.ground(tout, r1)
        tags.append('append-result' if fam == 'append' else 'filter-result')
        if got is None:
            raise Violation(fam + ':unbound', desc + ': Out is not bound')
        if tail is None:
            check_list(m, got, ael, None, fam + '-result', desc)
            if not H.has_sym(got): both_orders(drv, m, drv.term(got), ref, fam + '-result', desc)
        # (a list with an unbound tail variable as input is outside the claim)
    return {'tags': tags, 'note': desc}


def zero_ids(t):
    if t is None: return None
    if t[0] == 'var': return ('var', 0, t[2])
    if t[0] == 'cplx': return ('cplx', tuple(zero_ids(x) for x in t[1]))
    if t[0] == 'lst': return ('lst', tuple(zero_ids(x) for x in t[1]), zero_ids(t[2]) if t[2] is not None else None)
    return t
