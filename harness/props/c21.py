"""C21 - loading a file equals parsing its rules one by one."""
import z3
from mirsym.machine import Sym
from ..engine import Violation
from ..driver import ScenarioEnd
from .. import refunify as R
from .c19 import goal_eq
from .unify_common import struct_eq

ANCHORS = ['load_kb_from_file', 'read_facts_and_rules', 'strip_comments', 'separate_rules', 'check_last_char', 'parse_rule']
WITNESSES = {'all': ['loaded-equal', 'line-breaks', 'comments', 'blank-lines', 'float-literal', 'infix-in-body', 'loaded-into-existing']}
OPTS = {'quick': {'selfcheck_mod': 40, 'budget_s': 280, 'max_paths_per_case': 5000}, 'thorough': {'selfcheck_mod': 400, 'budget_s': 3000, 'max_paths_per_case': 20000}}
STEP_LIMIT = 3_000_000
BOUNDS = {
    'quick': '14 programs of 1-4 rules (facts, names outside ASCII, conjunctions, disjunctions, lists, quoted atoms containing `, . #`, escaped commas, float literals and infix `= < + *` in bodies); '
             'each rendered with a symbolic layout character (space or line feed, decided by the solver) after every documented continuation character `-` `,` `;` `=` outside '
             'brackets (up to 8 per program: all 2^k layouts in one exploration), in 3 decorations: plain, with `#` / `%` / `//` comment lines and trailing comments, with blank lines and continuation lines indented by a space or a tab (also a solver variable; up to 4 break points); for the plain decoration the file is loaded a second time into the result (every list of rules doubled, in order); oracle: load returns an error, or format_kb and every stored rule equal those of parse_rule applied to each rule on one line',
    'thorough': '30 programs, layout characters also after commas inside parentheses and brackets (comments only where the running depth is 0)',
}
OUTSIDE = 'comments inside parentheses or brackets; line breaks at other places than after a continuation character; files that do not exist'
ASSUMPTIONS = ['the file is an in-memory table entry for the executor and a temporary file for the native replay']

PROGRAMS = [
    ['p(a).', 'p(b).', 'q($X) :- p($X).'],
    ['r($X, $Y) :- p($X), q($Y), s($X, $Y).', 's(a, b).'],
    ['t($X) :- p($X); q($X); r($X, a).'],
    ['u($X) :- $X = 3.14, q($X).'],
    ['v($X, $Y) :- $X = 5, $Y = $X + 1, $Y < 7.5.'],
    ['w([$H | $T], $H) :- p($H), print($T).', 'w([], none).'],
    ['x($X) :- $X = "a, b. c", print("# not a comment", $X).'],
    ['y($X) :- p($X), q($X); r($X, $X), !, s($X, b).'],
    ['z(1.5).', 'z(2).', 'z($X) :- $X = 0.25; $X = 10.'],
    ['a1($X) :- not(p($X)), $X == b, nl.', 'b1(\\,, a).'],
    ['c1($L) :- append(a, [b, c], $L), count($L, $N), $N >= 3.'],
    ['d1 :- p(a), q(b).', 'e1($X) :- $X = f(g(1, 2.5), [x, y | $T]).'],
    ['ville(Montréal, $P) :- größe($P, Δ), $P < 3.25.', 'é(ü).', '日本($X) :- 東京($X), $X = ß.'],
    ['title(War  and  Peace, "a  b").', 'w2($X) :- $X = "tab\there", print(two  blanks, $X).'],
]
MORE = [
    ['f1($X) :- $X = 1.0e3.'], ['g1($X, $Y) :- $Y = $X * 2.5, $Y > 1.'], ['h1([a, b, c]).', 'h1([]).', 'h1([$X]) :- p($X).'],
    ['i1($X) :- p($X), ($X = a; $X = b), q($X).'], ['j1("x.y").', 'j1("p :- q").'], ['k1($X) :- $X = -3.5, $X <= -1.'],
    ['l1(a) :- true.', 'l1(b) :- fail.'], ['m1($X) :- include($X, [1, 2, 3], $Y), print_list($Y).'], ['n1(a, 2, 3.5, "s t", [1 | $T]).'],
    ['o1($X) :- functor($X, $F, $A), $A == 2; $X = none.'], ['p1 :- q1, r1; s1.', 'q1.', 'r1.', 's1.'], ['t1($X) :- time(q($X)).'],
    ['u1($X) :- $X = 5 / 2.0.'], ['v1($A, $B) :- $A = $B.'], ['w1(0.5, .5).'], ['x1($X) :- p($X) , q($X) .'], ['y1($X):-p($X),q($X).'],
]


def cases(tier, seed):
    progs = PROGRAMS if tier == 'quick' else PROGRAMS + MORE
    out = []
    for i, p in enumerate(progs):
        for deco in ('plain', 'comments', 'blank'):
            out.append({'id': 'program %d (%s) %s' % (i, p[0][:30], deco), 'prog': p, 'deco': deco, 'inner': tier != 'quick'})
    return out


def break_points(rule, inner):
    """indices after which a line may be broken: after `-` of `:-`, `,`, `;`, `=` outside quotes (and outside brackets unless inner)"""
    pts = []
    depth = 0; quote = False
    for i, ch in enumerate(rule):
        prev = rule[i - 1] if i else ''
        if ch == '"' and prev != '\\': quote = not quote
        if quote: continue
        if ch in '([': depth += 1
        elif ch in ')]': depth -= 1
        ok = (depth == 0) or inner
        if not ok: continue
        if i + 1 >= len(rule): continue
        if ch == '-' and prev == ':': pts.append(i)
        elif ch in ',;' and prev != '\\' and rule[i + 1] == ' ': pts.append(i)
        elif ch == '=' and rule[i + 1] == ' ' and prev == ' ': pts.append(i)
    return pts


def render(m, prog, deco, inner):
    chars = []
    nb = 0
    comments = ['# a comment', '% another one.', '// and a third, with commas; and = signs']
    for ri, rule in enumerate(prog):
        if deco == 'comments':
            chars += list(comments[ri % 3]) + ['\n']
        if deco == 'blank' and ri % 2 == 0:
            chars += list('\n   \n')
        pts = set(break_points(rule, inner))
        i = 0
        while i < len(rule):
            ch = rule[i]
            chars.append(ch)
            if i in pts and nb < (4 if deco == 'blank' else 8):
                c = m.fresh('nl%d' % nb, 'char'); nb += 1
                if isinstance(c, Sym):
                    m.assume(Sym(z3.Or(c.e == 32, c.e == 10), 'bool'))
                chars.append(c)
                if deco == 'blank':
                    # indentation of the continuation line: a space or a tab, decided by the solver
                    ind = m.fresh('ind%d' % nb, 'char')
                    if isinstance(ind, Sym):
                        m.assume(Sym(z3.Or(ind.e == 32, ind.e == 9), 'bool'))
                    chars += [ind, ' ']
                # the space that follows in the source text stays (indentation)
            i += 1
        if deco == 'comments' and ri % 2 == 0:
            chars += list('  # trailing comment')
        chars.append('\n')
    return chars, nb


def run(drv, case):
    m = drv.m
    prog = case['prog']
    chars, nb = render(m, prog, case['deco'], case['inner'])
    desc = case['id']
    try:
        ref_rules = []
        for r in prog:
            rr, res = drv.parse('rule', r)
            if res[0] != 'ok':
                return {'tags': ['reference-rejected'], 'nontrivial': False, 'note': desc}
            ref_rules.append(rr)
        kb_ref = drv.kb(ref_rules)
        kb, err = drv.loadkb(chars)
    except ScenarioEnd as e:
        raise Violation('loader-%s' % e.why[0], '%s: %s' % (desc, e.why[1][:200]))
    layout = ''.join(c if isinstance(c, str) else '?' for c in chars)
    if err is not None:
        return {'tags': ['rejected-with-error'], 'note': desc}
    want, got = drv.dumpkb(kb_ref), drv.dumpkb(kb)
    same = len(want) == len(got) and all(k1 == k2 and len(r1) == len(r2) and all(struct_eq(m, a[1], b[1]) and goal_eq(m, a[2], b[2]) for a, b in zip(r1, r2))
                                          for (k1, r1), (k2, r2) in zip(want, got))
    if not same:
        from .. import heap as H
        def fmt(v): return '; '.join('%s: %s' % (k, ' | '.join(H.dump_rule(r) for r in rs)) for k, rs in v)
        raise Violation('silently-different:' + desc.split(' (')[0].replace(' ', '-'), '%s: the file loads without error but holds different rules.\nfile:\n%s\nloaded: %s\nexpected: %s' % (desc, layout, fmt(got)[:600], fmt(want)[:600]))
    t1, t2 = drv.showkb(kb_ref), drv.showkb(kb)
    if t1 != t2:
        raise Violation('format-differs', '%s: format_kb differs' % desc)
    tags = ['loaded-equal']
    if case['deco'] == 'plain':
        # loading adds to what the knowledge base already holds: the same file loaded a second time into the result doubles every list of rules, in order
        kb2, err2 = drv.loadkb(chars, into=kb)
        if err2 is not None: raise Violation('second-load-rejected', '%s: loading the same file into the loaded knowledge base fails: %s' % (desc, str(err2)[:150]))
        got2 = drv.dumpkb(kb2)
        ok2 = len(got2) == len(want) and all(k1 == k2 and len(r2) == 2 * len(r1) and all(struct_eq(m, a[1], b[1]) and goal_eq(m, a[2], b[2]) for a, b in zip(r1 + r1, r2))
                                              for (k1, r1), (k2, r2) in zip(want, got2))
        if not ok2:
            raise Violation('load-into-existing', '%s: loaded into a knowledge base that already holds these predicates, the rules are not appended in order' % desc)
        tags.append('loaded-into-existing')
    if nb: tags.append('line-breaks')
    if case['deco'] == 'comments': tags.append('comments')
    if case['deco'] == 'blank': tags.append('blank-lines')
    src = ' '.join(prog)
    if any(ch.isdigit() and src[i + 1:i + 2] == '.' and src[i + 2:i + 3].isdigit() for i, ch in enumerate(src)): tags.append('float-literal')
    if ' = ' in src or ' < ' in src: tags.append('infix-in-body')
    return {'tags': tags, 'note': desc}
