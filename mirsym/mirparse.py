"""Parser for rustc `-Zunpretty=mir` text (mir-opt-level=0) into a small AST.

PROTOTYPE (design-phase feasibility probe, not registered anywhere).
"""
import re

# ---------------------------------------------------------------- utilities

OPEN = {'(': ')', '[': ']', '<': '>', '{': '}'}
CLOSE = {v: k for k, v in OPEN.items()}


_LIT = re.compile(r'"(?:[^"\\\\]|\\\\.)*"|\'(?:\\\\.[^\']*|[^\'\\\\])\'')


def mask(s):
    """Replace the contents of string/char literals and '->' by neutral characters (same length)."""
    s = _LIT.sub(lambda m: 'L' * len(m.group(0)), s)
    return s.replace('->', '~~')


def split_top(s, sep=','):
    """Split s on sep at bracket depth 0 (handles () [] <> {} and string/char literals)."""
    out, depth, cur, i, n = [], 0, [], 0, len(s)
    while i < n:
        c = s[i]
        if c == '"':
            j = i + 1
            while j < n and s[j] != '"':
                j += 2 if s[j] == '\\' else 1
            cur.append(s[i:j + 1]); i = j + 1; continue
        if c == "'" and i + 2 < n:
            # char literal 'x' or '\n' or lifetime 'a
            m = re.match(r"'(\\.[^']*|[^'\\])'", s[i:])
            if m:
                cur.append(m.group(0)); i += len(m.group(0)); continue
        if c == '-' and i + 1 < n and s[i + 1] == '>':
            cur.append('->'); i += 2; continue
        if c in OPEN:
            depth += 1
        elif c in CLOSE:
            depth -= 1
        if c == sep and depth == 0:
            out.append(''.join(cur).strip()); cur = []
        else:
            cur.append(c)
        i += 1
    t = ''.join(cur).strip()
    if t or out:
        out.append(t)
    return out


def match_close(s, i):
    """s[i] is an opening bracket; return index of its matching close."""
    depth, n = 0, len(s)
    while i < n:
        c = s[i]
        if c == '"':
            j = i + 1
            while j < n and s[j] != '"':
                j += 2 if s[j] == '\\' else 1
            i = j + 1; continue
        if c == "'":
            m = re.match(r"'(\\.[^']*|[^'\\])'", s[i:])
            if m:
                i += len(m.group(0)); continue
        if c == '-' and i + 1 < n and s[i + 1] == '>':
            i += 2; continue
        if c in OPEN:
            depth += 1
        elif c in CLOSE:
            depth -= 1
            if depth == 0:
                return i
        i += 1
    raise ValueError('unbalanced: ' + s)


# ---------------------------------------------------------------- places

def parse_place(s):
    """Returns ('local', n) | ('deref', p) | ('field', p, idx, ty) | ('downcast', p, name)
       | ('index', p, local) | ('cindex', p, off, minlen, from_end) | ('subslice', p, a, b, from_end)"""
    s = s.strip()
    p, rest = _parse_place_prefix(s)
    while rest:
        if rest[0] == '[':
            j = match_close(rest, 0)
            inner = rest[1:j].strip()
            rest = rest[j + 1:]
            m = re.fullmatch(r'_(\d+)', inner)
            if m:
                p = ('index', p, int(m.group(1))); continue
            m = re.fullmatch(r'(-?)(\d+) of (\d+)', inner)
            if m:
                p = ('cindex', p, int(m.group(2)), int(m.group(3)), m.group(1) == '-'); continue
            m = re.fullmatch(r'(\d+):(-?)(\d*)', inner)
            if m:
                p = ('subslice', p, int(m.group(1)), int(m.group(3) or 0), m.group(2) == '-'); continue
            raise ValueError('index proj: ' + inner)
        raise ValueError('place tail: ' + rest)
    return p


def _parse_place_prefix(s):
    m = re.match(r'_(\d+)', s)
    if m:
        return ('local', int(m.group(1))), s[m.end():]
    if s[0] != '(':
        raise ValueError('place: ' + s)
    j = match_close(s, 0)
    inner, rest = s[1:j].strip(), s[j + 1:]
    if inner.startswith('*'):
        return ('deref', parse_place(inner[1:])), rest
    # field: "<place>.N: TYPE"  or downcast: "<place> as Name"
    # find the inner place end
    if inner[0] == '(':
        k = match_close(inner, 0) + 1
    else:
        k = re.match(r'_\d+', inner).end()
    # possibly index projections directly after
    while k < len(inner) and inner[k] == '[':
        k = match_close(inner, k) + 1
    base = parse_place(inner[:k])
    tail = inner[k:]
    m = re.match(r'\.(\d+): (.*)$', tail, re.S)
    if m:
        return ('field', base, int(m.group(1)), m.group(2).strip()), rest
    m = re.match(r' as (\w+)$', tail)
    if m:
        return ('downcast', base, m.group(1)), rest
    raise ValueError('place inner: ' + inner)


# ---------------------------------------------------------------- operands / rvalues

BINOPS = {'Eq', 'Ne', 'Lt', 'Le', 'Gt', 'Ge', 'Add', 'Sub', 'Mul', 'Div', 'Rem', 'BitAnd', 'BitOr',
          'BitXor', 'Shl', 'Shr', 'AddWithOverflow', 'SubWithOverflow', 'MulWithOverflow', 'Offset',
          'Cmp', 'AddUnchecked', 'SubUnchecked', 'MulUnchecked', 'ShlUnchecked', 'ShrUnchecked'}
UNOPS = {'Not', 'Neg', 'PtrMetadata'}


def parse_operand(s):
    s = s.strip()
    if s.startswith('move '):
        return ('move', parse_place(s[5:]))
    if s.startswith('copy '):
        return ('copy', parse_place(s[5:]))
    if s.startswith('no_retag copy '):
        return ('copy', parse_place(s[14:]))
    if s.startswith('const '):
        return ('const', parse_const(s[6:].strip()))
    if re.match(r'^[A-Za-z_<{]', s) and not s.startswith(('_', 'move', 'copy')):
        return ('const', ('named', s))      # a function item / ZST passed by name
    raise ValueError('operand: ' + s)


def unescape(body):
    out, i = [], 0
    while i < len(body):
        c = body[i]
        if c == '\\':
            d = body[i + 1]
            if d == 'n': out.append('\n'); i += 2
            elif d == 't': out.append('\t'); i += 2
            elif d == 'r': out.append('\r'); i += 2
            elif d == '0': out.append('\0'); i += 2
            elif d == '\\': out.append('\\'); i += 2
            elif d == '"': out.append('"'); i += 2
            elif d == "'": out.append("'"); i += 2
            elif d == 'x': out.append(chr(int(body[i + 2:i + 4], 16))); i += 4
            elif d == 'u':
                j = body.index('}', i)
                out.append(chr(int(body[i + 3:j], 16))); i = j + 1
            else:
                raise ValueError('escape ' + body[i:i + 4])
        else:
            out.append(c); i += 1
    return ''.join(out)


def parse_const(s):
    if s == '()':
        return ('unit',)
    if s in ('true', 'false'):
        return ('bool', s == 'true')
    m = re.fullmatch(r'(-?\d+)_(\w+)', s)
    if m:
        return ('int', int(m.group(1)), m.group(2))
    m = re.fullmatch(r'(-?[\d.]+(?:[eE][-+]?\d+)?|-?inf|NaN)f64', s)
    if m:
        return ('f64', float(m.group(1)))
    m = re.fullmatch(r'(-?[\d.]+(?:[eE][-+]?\d+)?|-?inf|NaN)_?f64', s)
    if m:
        return ('f64', float(m.group(1)))
    if s.startswith('"'):
        return ('str', unescape(s[1:-1]))
    if s.startswith('b"'):
        return ('bytes', [ord(c) for c in unescape(s[2:-1])])
    if s.startswith("'"):
        return ('char', unescape(s[1:-1]))
    m = re.fullmatch(r'\{alloc(\d+): (.*)\}', s)
    if m:
        return ('alloc', int(m.group(1)), m.group(2))
    m = re.fullmatch(r'(.*)::promoted\[(\d+)\]', s)
    if m:
        return ('promoted', m.group(1), int(m.group(2)))
    return ('named', s)   # named const / fn item / ZST


_FNPTR = re.compile(r"^([\w:<>, ']+?) as (?:for<[^>]*> )?(?:unsafe )?(?:extern \"[^\"]*\" )?fn\(.*\)(?: -> .*?)? \(PointerCoercion\(ReifyFnPointer.*\)\)$", re.S)


def parse_rvalue(s):
    s = s.strip()
    m = _FNPTR.match(s)
    if m and not s.startswith(('move ', 'copy ', 'const ')):
        # a function item (or a tuple-variant / tuple-struct constructor) coerced to a fn pointer
        return ('use', ('const', ('named', m.group(1).strip())))
    if s.startswith(('move ', 'copy ', 'no_retag copy ', 'const ')):
        # could be a cast: "move _5 as f64 (IntToFloat)"
        m = re.match(r'^(.*?) as (.*) \((\w+(?:\(.*\))?)\)$', s, re.S)
        if m and not s.startswith('const "'):
            try:
                return ('cast', parse_operand(m.group(1)), m.group(2).strip(), m.group(3))
            except ValueError:
                pass
        return ('use', parse_operand(s))
    if s.startswith('&raw const (fake) '):
        return ('ref', 'raw', parse_place(s[18:]))
    if s.startswith('&raw const '):
        return ('ref', 'raw', parse_place(s[11:]))
    if s.startswith('&raw mut '):
        return ('ref', 'rawmut', parse_place(s[9:]))
    if s.startswith('&mut '):
        return ('ref', 'mut', parse_place(s[5:]))
    if s.startswith('&fake shallow '):
        return ('ref', 'shared', parse_place(s[14:]))
    if s.startswith('&'):
        return ('ref', 'shared', parse_place(s[1:]))
    if s.startswith('deref_copy '):
        return ('use', ('copy', parse_place(s[11:])))
    m = re.match(r'^(\w+)\((.*)\)$', s, re.S)
    if m and m.group(1) in BINOPS:
        a, b = split_top(m.group(2))
        return ('binop', m.group(1), parse_operand(a), parse_operand(b))
    if m and m.group(1) in UNOPS:
        return ('unop', m.group(1), parse_operand(m.group(2)))
    if m and m.group(1) == 'discriminant':
        return ('discr', parse_place(m.group(2)))
    if m and m.group(1) == 'Len':
        return ('len', parse_place(m.group(2)))
    if m and m.group(1) == 'ShallowInitBox':
        a, b = split_top(m.group(2))
        return ('shallow_box', parse_operand(a), b)
    if s.startswith('('):
        j = match_close(s, 0)
        if j == len(s) - 1:
            parts = [p for p in split_top(s[1:j]) if p != '']
            return ('tuple', [parse_operand(p) for p in parts])
    if s.startswith('['):
        j = match_close(s, 0)
        if j == len(s) - 1:
            inner = s[1:j]
            semi = split_top(inner, ';')
            if len(semi) == 2:
                return ('repeat', parse_operand(semi[0]), semi[1].strip())
            parts = [p for p in split_top(inner) if p != '']
            return ('array', [parse_operand(p) for p in parts])
    if s.startswith('{closure@'):
        j = match_close(s, 0)
        rest = s[j + 1:].strip()
        ops = []
        if rest.startswith('('):
            ops = [parse_operand(p) for p in split_top(rest[1:-1]) if p]
        elif rest.startswith('{'):
            # captures printed by name: {closure@..} { ss: move _11, n: copy _3 }
            for part in split_top(rest[1:-1].strip()):
                if part: ops.append(parse_operand(part.split(': ', 1)[1]))
        return ('closure', s[:j + 1], ops)
    # ADT aggregates:  Path::Variant(ops) | Path::Variant | Path { f: op, .. } | Path
    if s.endswith('}') and ' { ' in s:
        k = s.index(' { ')
        path = s[:k]
        fields = []
        for part in split_top(s[k + 3:-1].strip()):
            if not part:
                continue
            nm, op = part.split(': ', 1)
            fields.append((nm.strip(), parse_operand(op)))
        return ('adt', path, [f[1] for f in fields], [f[0] for f in fields])
    if s.endswith(')'):
        # find the opening paren matching the last ')'
        depth = 0
        ms = mask(s)
        for i in range(len(s) - 1, -1, -1):
            if ms[i] == ')': depth += 1
            elif ms[i] == '(':
                depth -= 1
                if depth == 0:
                    break
        path = s[:i]
        ops = [parse_operand(p) for p in split_top(s[i + 1:-1]) if p]
        return ('adt', path, ops, None)
    return ('adt', s, [], None)


# ---------------------------------------------------------------- statements / terminators

def parse_targets(s):
    """'[return: bb1, unwind: bb2]' | 'bb3' | 'unwind continue' -> dict"""
    s = s.strip()
    d = {}
    if s.startswith('['):
        for part in split_top(s[1:-1]):
            if ': ' in part:
                k, v = part.split(': ', 1)
                d[k.strip()] = v.strip()
            else:
                k, v = part.split(' ', 1)
                d[k.strip()] = v.strip()
    elif s.startswith('bb'):
        d['return'] = s
    else:
        d['unwind'] = s
    out = {}
    for k, v in d.items():
        m = re.fullmatch(r'bb(\d+)', v)
        out[k] = int(m.group(1)) if m else v
    return out


def parse_stmt(line):
    s = line.strip()
    if s.endswith(';'):
        s = s[:-1]
    if s.startswith(('StorageLive(', 'StorageDead(', 'FakeRead(', 'PlaceMention(', 'AscribeUserType(',
                     'Retag(', 'nop', 'Coverage', 'ConstEvalCounter', 'BackwardIncompatibleDropHint')):
        return None
    if s == 'return':
        return ('return',)
    if s == 'unreachable':
        return ('unreachable',)
    if s == 'resume' or s.startswith('terminate('):
        return ('resume',)
    m = re.match(r'^goto -> bb(\d+)$', s)
    if m:
        return ('goto', int(m.group(1)))
    m = re.match(r'^(?:falseEdge|falseUnwind) -> \[(?:real|falseEdge): bb(\d+)', s)
    if m:
        return ('goto', int(m.group(1)))
    m = re.match(r'^switchInt\((.*)\) -> \[(.*)\]$', s, re.S)
    if m:
        targets, other = [], None
        for part in split_top(m.group(2)):
            k, v = part.split(': ')
            bb = int(v.strip()[2:])
            if k.strip() == 'otherwise':
                other = bb
            else:
                targets.append((int(k), bb))
        return ('switch', parse_operand(m.group(1)), targets, other)
    m = re.match(r'^drop\((.*)\) -> (.*)$', s, re.S)
    if m:
        return ('drop', parse_place(m.group(1)), parse_targets(m.group(2)))
    m = re.match(r'^assert\((.*)\) -> (\[.*\])$', s, re.S)
    if m:
        args = split_top(m.group(1))
        cond = args[0]
        expected = True
        if cond.startswith('!'):
            expected = False; cond = cond[1:]
        return ('assert', parse_operand(cond), expected, args[1], parse_targets(m.group(2)))
    # assignment or call
    # split "PLACE = RHS"
    eq = find_assign(s)
    lhs, rhs = s[:eq].strip(), s[eq + 3:].strip()
    m = re.match(r'^(.*\)) -> (\[.*\]|bb\d+|unwind \w+(?:\(\w+\))?)$', rhs, re.S)
    if m and looks_like_call(m.group(1)):
        callee, args = split_call(m.group(1))
        return ('call', parse_place(lhs), callee, [parse_operand(a) for a in args], parse_targets(m.group(2)))
    if lhs.startswith('discriminant('):
        return ('setdiscr', parse_place(lhs[13:-1]), int(rhs))
    return ('assign', parse_place(lhs), parse_rvalue(rhs))


def find_assign(s0):
    s = mask(s0)
    depth = 0
    for i, c in enumerate(s):
        if c in '([<':
            depth += 1
        elif c in ')]>':
            depth -= 1
        elif depth == 0 and s.startswith(' = ', i):
            return i
    raise ValueError('no assign: ' + s)


def looks_like_call(s):
    return True


def split_call(s0):
    # s = "callee(args)" ; callee may contain parens in types e.g. <(A,B) as T>::f
    s = s0
    ms = mask(s0)
    depth = 0
    for i in range(len(s) - 1, -1, -1):
        if ms[i] == ')': depth += 1
        elif ms[i] == '(':
            depth -= 1
            if depth == 0:
                break
    callee = s[:i].strip()
    args = [a for a in split_top(s[i + 1:-1]) if a]
    return callee, args


# ---------------------------------------------------------------- file level

class Func:
    def __init__(self, name, kind):
        self.name = name; self.kind = kind
        self.nargs = 0; self.locals = {}; self.blocks = {}; self.ret_ty = None
        self.arg_tys = []

    def __repr__(self):
        return f'<Func {self.name} nargs={self.nargs} blocks={len(self.blocks)}>'


def parse_mir(text):
    funcs, statics, allocs = {}, {}, {}
    lines = text.split('\n')
    i, n = 0, len(lines)
    while i < n:
        line = lines[i]
        if line.startswith(('fn ', 'const ', 'static ')) and line.rstrip().endswith('{'):
            hdr = line
            f = None
            if line.startswith('fn '):
                # fn NAME(args) -> RET {
                body = line[3:].rstrip()[:-1].rstrip()
                # find the arg list: last top-level '(' ... ')' before optional '-> RET'
                arrow = find_top_arrow(body)
                sig, ret = (body[:arrow].rstrip(), body[arrow + 4:].strip()) if arrow >= 0 else (body, '()')
                j = len(sig) - 1
                assert sig[j] == ')', sig
                depth = 0
                for k in range(j, -1, -1):
                    if sig[k] == ')': depth += 1
                    elif sig[k] == '(':
                        depth -= 1
                        if depth == 0:
                            break
                name = sig[:k]
                f = Func(name, 'fn'); f.ret_ty = ret
                for a in split_top(sig[k + 1:j]):
                    if not a: continue
                    m = re.match(r'_(\d+): (.*)$', a, re.S)
                    f.locals[int(m.group(1))] = m.group(2)
                    f.arg_tys.append(m.group(2))
                f.nargs = len(f.arg_tys)
            else:
                kind = 'const' if line.startswith('const ') else 'static'
                m = re.match(r'^(?:const|static(?: mut)?) (.*promoted\[\d+\]): (.*) = \{$', line.rstrip()) or \
                    re.match(r'^(?:const|static(?: mut)?) (.*?): (.*) = \{$', line.rstrip())
                name = m.group(1)
                f = Func(name, kind); f.ret_ty = m.group(2)
            i += 1
            cur = None
            while i < n and lines[i] != '}':
                l = lines[i].strip()
                if l.startswith('let '):
                    m = re.match(r'let (?:mut )?_(\d+): (.*);$', l)
                    f.locals[int(m.group(1))] = m.group(2)
                elif re.match(r'bb\d+(?: \(cleanup\))?: \{$', l):
                    cur = int(re.match(r'bb(\d+)', l).group(1)); f.blocks[cur] = []
                elif l == '}' or l.startswith(('debug ', 'scope ')) or not l:
                    pass
                elif cur is not None:
                    # statements may span multiple lines (rare); join until ';' or terminator w/o ';'
                    st = l
                    try:
                        ps = parse_stmt(st)
                    except Exception as e:
                        raise ValueError(f'{f.name}: cannot parse: {st!r}: {e}')
                    if ps is not None:
                        f.blocks[cur].append(ps)
                i += 1
            funcs[f.name] = f
        elif re.match(r'^alloc\d+ \(', line):
            m = re.match(r'^alloc(\d+) \((?:static: (\w+), )?size: (\d+)', line)
            allocs[int(m.group(1))] = m.group(2)
        elif re.match(r'^const (\S+): (\S+) = const (.*);$', line):
            m = re.match(r'^const (\S+): (\S+) = const (.*);$', line)
            f = Func(m.group(1), 'constval'); f.ret_ty = m.group(2); f.value = parse_const(m.group(3))
            funcs[f.name] = f
        i += 1
    return funcs, allocs


def find_top_arrow(s):
    depth = 0
    i = 0
    last = -1
    while i < len(s):
        c = s[i]
        if s.startswith(' -> ', i) and depth == 0:
            last = i
        if c == '-' and s[i + 1:i + 2] == '>':
            i += 2; continue
        if c in '([<{': depth += 1
        elif c in ')]>}': depth -= 1
        i += 1
    return last


if __name__ == '__main__':
    import sys
    funcs, allocs = parse_mir(open(sys.argv[1]).read())
    print(len(funcs), 'items;', sum(len(b) for f in funcs.values() for b in f.blocks.values()), 'statements')
    print(allocs)
