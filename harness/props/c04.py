"""C04 - output side effects occur once per execution, in search order."""
import z3
from mirsym.machine import Sym
from ..engine import Violation
from .. import progs as P
from .. import refsld as S
from ..progs import V, A, C, L, I, gc, gb, AND, OR, NOT, U, F, X, Y, Z
from . import prog_common as PC

ANCHORS = PC.ANCHORS + ['next_solution_print', 'format_for_print_pred', 'next_solution_print_list', 'format_slist']
WITNESSES = {'all': ['writes-output', 'several-answers', 'format-unit', 'print_list', 'output-during-failed-search']}
OPTS = {'quick': {'selfcheck_mod': 60, 'budget_s': 280}, 'thorough': {'selfcheck_mod': 600, 'budget_s': 3000}}
STEP_LIMIT = 1_500_000
BOUNDS = {
    'quick': 'bodies of up to 3 goals (6 conjunction/disjunction shapes) over {p($X), q($X), r($X, $Y), $X = b, fail, d(a) (a goal that succeeds twice without binding anything)} and the output goals print(x), print($X), print("<%s>", $X), '
             'print("%s-%s.", $X, $Y), nl, print_list([$X, k]), print_list($L) with $L bound through a list fact, print_list([$X | $L]) with a bound tail, print_list of nested / empty lists and numbers, print with surplus arguments, without markers, with a float and with a bound integer; at least one output goal per body; the text written before each '
             'answer and after the last one is compared with the reference search; unit level: format_for_print_pred on a format string of 0-5 characters over {%, s, a} (each a '
             'solver variable) with 0-3 further arguments (plain ones, and ones that themselves contain `%s`)',
    'thorough': 'adds a second output goal menu entry with two markers and three arguments, print_list on a bound-tail list, and 7-character format strings',
}
OUTSIDE = 'time(...) output; printing unbound variables; print_list with several arguments'
ASSUMPTIONS = ['stdout is the modelled io::_print log in the executor and the captured process output in the native replay']

OUTG = [gb('print', A('x')), gb('print', X), gb('print', A('<%s>'), X), gb('print', A('%s-%s.'), X, Y), gb('nl'), gb('print_list', L(X, A('k'))), AND(gc('l', Z), gb('print_list', Z)),
        AND(gc('l', Z), gb('print_list', L(X, tail=Z))), gb('print_list', L(L(A('b'), A('m')), L(), I(3), ('float', 2.5), X)), gb('print', A('%s and %s'), X, A('y'), A('z'), I(7)),
        gb('print', X, A(' is '), ('float', 0.25), A('%')), AND(gc('n', Z), gb('print', A('n=%s;'), Z))]
MENU = [gc('p', X), gc('q', X), gc('r', X, Y), U(X, A('b')), gb('fail'), gc('d', A('a'))]


def is_out(g): return g in OUTG


def cases(tier, seed):
    out = []
    import itertools
    def add(body):
        cl = [(C('t', X), body)]
        out.append({'id': '%s|%d' % (P.ctext(cl[0]), len(out)), 'fam': 'prog', 'clauses': PC.jsonable(tuple(cl)), 'query': PC.jsonable(C('t', X)), 'concrete_data': True})
    for o in OUTG:
        for a in MENU:
            add(AND(a, o)); add(AND(o, a)); add(OR(AND(a, o), a)); add(OR(o, a))
            for b in MENU[:4]:
                add(AND(a, o, b)); add(AND(a, b, o)); add(AND(o, a, b)); add(OR(AND(a, o), b)); add(AND(OR(a, b), o)); add(AND(a, OR(o, b)))
        for o2 in OUTG[:5]:
            add(AND(MENU[0], o, o2)); add(AND(o, MENU[2], o2))
            add(AND(OR(o, o2), OUTG[0], gb('fail'))); add(AND(OR(o, o2), gc('d', A('a')), o2))
    # print_list with several arguments, and with a list that continues through two bound tail variables
    W_ = V('W')
    for a in MENU[:3]:
        add(AND(a, gb('print_list', A('header'), L(X, A('k')), L(A('c')))))
        add(AND(a, gb('print_list', L(X), L(A('c')), A('end'))))
        add(AND(a, U(Z, L(A('c'), tail=W_)), U(W_, L(A('d'), X)), gb('print_list', L(A('a'), A('b'), tail=Z))))
        add(AND(U(Z, L(A('c'), tail=W_)), a, U(W_, L(X)), gb('print_list', L(A('a'), tail=Z))))
    # printing a body-local variable that first occurs at different places in the alternatives of a disjunction
    for g1 in (U(Y, I(1)), gc('q', Y)):
        for g3 in (U(Y, I(2)), gc('q', Y)):
            for o in (gb('print', X, Y), gb('print', A('%s-%s '), Y, Z), gb('print_list', L(Y, X))):
                add(AND(gc('p', X), OR(g1, AND(U(Z, I(9)), g3)), o)); add(AND(OR(AND(gc('p', Z), g3), g1), o))
    nf = 5 if tier == 'quick' else 7
    for n in range(0, nf + 1):
        for k in range(0, 4):
            for argset in ((0,) if k == 0 else (0, 1, 2)):
                out.append({'id': 'format %d chars, %d arguments (set %d)' % (n, k, argset), 'fam': 'format', 'n': n, 'k': k, 'argset': argset})
    return out


def run_format(drv, case):
    m = drv.m
    chars = []
    for i in range(case['n']):
        c = m.fresh('f%d' % i, 'char')
        if isinstance(c, Sym): m.assume(Sym(z3.Or(c.e == ord('%'), c.e == ord('s'), c.e == ord('a')), 'bool'))
        chars.append(c)
    # the reference needs the text: concretise (the solver enumerates the 3^n strings)
    text = ''.join(chr(m.concretize(c)) if isinstance(c, Sym) else c for c in chars)
    args = [['A', 'B', 'C'], ['%s', 'B', 's%'], ['x%sy', '%s', 'C']][case.get('argset', 0)][:case['k']]
    got = drv.fmtprint([text] + args)
    want = S.format_print([text] + args)
    if got != want:
        raise Violation('format-rule', 'format_for_print_pred(%r, %r) = %r, documented rule gives %r' % (text, args, got, want))
    return {'tags': ['format-unit'], 'note': case['id']}


def run(drv, case):
    if case['fam'] == 'format': return run_format(drv, case)
    run, ref, tags, desc = PC.run_and_compare(drv, case, check_output=True)
    if run is None: return {'tags': tags, 'nontrivial': False}
    if 'print_list' in desc: tags.append('print_list')
    if run.outs and run.outs[-1] and run.exhausted: tags.append('output-during-failed-search')
    return {'tags': tags, 'note': desc}
