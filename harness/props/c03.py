"""C03 - not(G) succeeds once, without bindings, iff G has no answer."""
from ..engine import Violation
from .. import progs as P
from .. import refunify as R
from ..progs import V, A, C, L, I, gc, gb, AND, OR, NOT, U, F, X, Y, Z
from . import prog_common as PC
from . import bip_common as B
from .unify_common import struct_eq

ANCHORS = PC.ANCHORS + ['parse_operator_goal']
WITNESSES = {'all': ['not-succeeds', 'not-fails', 'node-level', 'parsed-not', 'has-answers', 'no-answer']}
OPTS = {'quick': {'selfcheck_mod': 60, 'budget_s': 280}, 'thorough': {'selfcheck_mod': 600, 'budget_s': 3000}}
STEP_LIMIT = 1_500_000
BOUNDS = {
    'quick': 'G in {p($X), q($X), q(a), r($X, $Y), (p($X), q($X)), (q($X) ; r($X, $Y)), $X = b, $X = $Y, $X == b, $X < 3, eq($X, c), a call of an undefined predicate, G whose first goal first succeeds without a binding and then with one, G that call facts made of `$_` only, and four G that bind a variable and then fail}; not(not(G)) and not(not(not(G))) for 5 G, alone and followed by a goal that binds the same variable; not(G) placed first, in the middle and last in '
             'conjunctions of up to 3 goals with backtracking neighbours p($X), q($X), r($X, $Y), and in one disjunction shape; 24 bodies in which a successful not(...) is followed by calls of facts that have variables of their own; answers compared with the reference; at node level: '
             'a Not node is built for each G under substitutions that bind $X to a, b, c or nothing, asked three times: at most one success, the returned substitution set equals the input, '
             'and success iff the reference finds no answer for G; `not(p($X))` also through parse_subgoal',
    'thorough': 'neighbours also n($X), member; not inside both alternatives of a disjunction; doubly nested not',
}
OUTSIDE = 'cut or time inside not(...)'
ASSUMPTIONS = []

GS = [gc('p', X), gc('q', X), gc('q', A('a')), gc('r', X, Y), AND(gc('p', X), gc('q', X)), OR(gc('q', X), gc('r', X, Y)), U(X, A('b')), U(X, Y),
      gb('equal', X, A('b')), gb('less_than', X, I(3)), gc('eq', X, A('c')), gc('nosuch', X), AND(gc('nosuch', X), gc('p', X)),
      # G binds something and then fails: not(G) succeeds and must leave no trace of those bindings
      # G's first goal succeeds without binding anything and has a second answer that the rest of G needs; facts made of `$_` only
      AND(gc('u', Y), gb('equal', Y, I(5))), AND(OR(gb('equal', X, A('a')), U(Y, I(2))), gb('equal', Y, I(2))), AND(gc('any', A('k')), gb('equal', X, A('a'))),
      AND(gc('any2', X, Y), gc('q', X)),
      AND(U(X, I(1)), gb('fail')), AND(gc('p', X), gb('equal', X, A('zz'))), AND(gc('r', X, Y), gc('nosuch', Y)), OR(AND(U(X, A('b')), gb('fail')), AND(gc('q', X), gb('fail')))]
NB = [gc('p', X), gc('q', X), gc('r', X, Y)]


def cases(tier, seed):
    out = []
    def add(body, fam='prog'):
        cl = [(C('t', X), body)]
        for q in (C('t', X), C('t', A('b')), C('t', A('c'))):
            out.append({'id': '%s ?- %s|%d' % (P.ctext(cl[0]), P.ttext(q), len(out)), 'fam': fam, 'clauses': PC.jsonable(tuple(cl)), 'query': PC.jsonable(q)})
    for g in GS:
        n = NOT(g)
        add(n)
        for a in NB:
            add(AND(n, a)); add(AND(a, n)); add(OR(n, a)); add(OR(a, n))
            for b in NB[:2]:
                add(AND(a, n, b)); add(AND(n, a, b)); add(AND(a, b, n))
        if tier != 'quick':
            add(NOT(n)); add(OR(AND(n, NB[0]), AND(NB[1], n)))
    # nested not: not(not(G)) succeeds iff G has an answer, and still leaves no binding behind
    for g in (gc('p', X), U(X, I(1)), gc('r', X, Y), AND(gc('p', X), gc('q', X)), gc('nosuch', X)):
        nn = NOT(NOT(g))
        add(nn); add(AND(nn, U(X, A('b')))); add(AND(nn, gc('q', X))); add(AND(gc('p', X), nn)); add(NOT(nn)); add(AND(NOT(nn), U(X, A('c'))))
    # after a successful not(...): goals that fetch clauses with variables of their own, and variables that are still unbound
    W = V('W')
    for n in (NOT(gc('q', I(1))), NOT(gc('nosuch', X)), NOT(AND(U(Y, I(1)), gb('fail')))):
        for rest in (AND(gc('pr', Y, Z, W), U(X, W)), AND(gc('h', Y), gc('eq', X, Y)), AND(gc('pr', Y, Z, W), gc('eq', Z, A('k')), U(X, W)), AND(gc('eq', Y, Z), gc('h', Z), U(X, Y))):
            add(AND(n, *rest[1])); add(AND(gc('eq', Y, Y), n, *rest[1]))
    for gi, g in enumerate(GS):
        for bind in (None, 'a', 'b', 'c'):
            out.append({'id': 'node not(%s) with $X = %s' % (P.gtext(g), bind), 'fam': 'node', 'g': gi, 'bind': bind})
    out.append({'id': 'parsed not(p($X))', 'fam': 'parsed'})
    return out


def run_node(drv, case):
    m = drv.m
    g = GS[case['g']]
    # give the goal's variables ids as a clause instance would have
    ren = {'$X': ('var', 1, '$X'), '$Y': ('var', 2, '$Y')}
    def rn(t):
        if isinstance(t, tuple):
            if t and t[0] == 'var': return ren[t[2]]
            return tuple(rn(x) for x in t)
        return t
    g = rn(g)
    clauses, _ = PC.program(m, {'clauses': ((C('t', X), ('gnot', (GS[case['g']],))),), 'query': C('t', X)})
    clauses = clauses[:-1]
    kb = P.build_kb(drv, clauses)
    env = B.Env(drv, first_id=3)
    if case['bind']: env.bind(('var', 1, '$X'), ('atom', case['bind']))
    before = drv.dumpss(env.ss)
    node = drv.node(drv.goal(('gnot', (g,))), kb, env.ss)
    rs = [drv.next(node) for _ in range(3)]
    # reference: does G have an answer under the bindings?
    from .. import refsld as S
    it = S.Interp(m, [(P.to_abs(h), None if b is None else P.to_abs(b)) for h, b in clauses])
    sub = {1: ('atom', case['bind'])} if case['bind'] else {}
    try:
        has = any(True for _ in it.solve(P.to_abs(g), sub, S.CutFlag()))
    except S.Outside:
        return {'tags': ['outside-claim'], 'nontrivial': False}
    desc = case['id']
    if (rs[0].h is not None) != (not has):
        raise Violation('not-outcome', '%s: not(G) %s but G %s an answer' % (desc, 'succeeds' if rs[0].h is not None else 'fails', 'has' if has else 'has not'))
    if rs[0].h is not None:
        after = drv.dumpss(rs[0])
        if not B.unchanged(m, before, after, struct_eq):
            raise Violation('not-binds', '%s: bindings changed from %s to %s' % (desc, [R.show(e) if e else '-' for e in before], [R.show(e) if e else '-' for e in after]))
    for i, r in enumerate(rs[1:], start=2):
        if r.h is not None:
            raise Violation('not-more-than-once', '%s: request %d on the same node gives another answer' % (desc, i))
    return {'tags': ['node-level', 'not-succeeds' if not has else 'not-fails'], 'note': desc}


def run(drv, case):
    if case['fam'] == 'node': return run_node(drv, case)
    if case['fam'] == 'parsed':
        g, res = drv.parse('subgoal', 'not(p($X))')
        v = drv.dump(g)
        if res[0] != 'ok' or v[0] != 'gnot' or v[1][0][0] != 'gc':
            raise Violation('not-parse', 'parse_subgoal("not(p($X))") gives %r' % (v,))
        return {'tags': ['parsed-not']}
    run, ref, tags, desc = PC.run_and_compare(drv, case, check_output=False)
    if run is None: return {'tags': tags, 'nontrivial': False}
    return {'tags': tags, 'note': desc}
