"""The scenario driver: one operation language, interpreted here on the MIR symbolic executor and by
/verif/vreplay natively.  Every Driver method (a) performs the operation by calling the real crate
functions' MIR, (b) records the operation (JSON, for vreplay) and, in a concrete re-run, the
observation string vreplay must print for it.
"""
import json
from mirsym.machine import (Agg, Cell, Ptr, VecV, RStr, RcV, Sym, Unsupported, RustPanic, StepLimit, StrRef, UNIT)
from mirsym.models import some, none
from . import heap as H


class ScenarioEnd(Exception):
    """the scenario cannot continue (panic / hang inside the crate): an observable outcome, not an error"""
    def __init__(self, why): self.why = why


class R:
    __slots__ = ('reg', 'h', 'kind')

    def __init__(self, reg, h, kind): self.reg = reg; self.h = h; self.kind = kind
    def __repr__(self): return 'R%d<%s>' % (self.reg, self.kind)


IMPL_UNIFIABLE = 'Unifiable'


class Driver:
    def __init__(self, m):
        self.m = m
        self.hp = H.Heap(m)
        self.ops = []      # recorded operations (may contain Sym until concretised)
        self.obs = []      # observation strings (concrete mode) or None
        self.outs = []     # text printed by the crate during each op
        self.nreg = 0
        self.concrete = m.concrete_inputs is not None
        self.ended = None
        self._fn = {}

    # ------------------------------------------------------------ helpers
    def fn(self, ty, meth, trait=None):
        k = (ty, trait, meth)
        f = self._fn.get(k)
        if f is None:
            n = self.m.impl_index.get(k)
            if n is None: raise Unsupported('no MIR body for %s::%s' % (ty, meth))
            f = self._fn[k] = self.m.funcs[n]
        return f

    def new(self, h, kind):
        r = R(self.nreg, h, kind); self.nreg += 1
        return r

    def _do(self, op, thunk, obs_of):
        """run thunk() (the MIR calls); record op and observation.  obs_of(result) -> str (concrete mode)."""
        idx = len(self.ops)
        self.ops.append(op); self.obs.append(None); self.outs.append('')
        n0 = len(self.m.stdout)
        try:
            res = thunk()
        except RustPanic as e:
            self.obs[idx] = 'PANIC:' + str(e)
            self.outs[idx] = ''.join(self.m.stdout[n0:])
            self.ended = ('panic', str(e), idx)
            raise ScenarioEnd(self.ended)
        except StepLimit as e:
            self.obs[idx] = 'HANG'
            self.outs[idx] = ''.join(self.m.stdout[n0:])
            self.ended = ('hang', str(e), idx)
            raise ScenarioEnd(self.ended)
        self.outs[idx] = ''.join(self.m.stdout[n0:])
        if self.concrete:
            self.obs[idx] = obs_of(res)
        return res

    def ref(self, r):
        return Ptr(Cell(r.h)) if not isinstance(r, Ptr) else r

    # ------------------------------------------------------------ terms and substitution sets
    def term(self, t):
        r = self.new(None, 'term')
        def go():
            r.h = self.hp.build(t); return r.h
        self._do(['term', r.reg, t], go, lambda h: H.dump(self.hp.read(h)))
        return r

    def ss0(self):
        r = self.new(RcV(Cell(VecV())), 'ss')
        self._do(['ss0', r.reg], lambda: None, lambda _: 'ok')
        return r

    def unify(self, a, b, ss):
        r = self.new(None, 'ss')
        if ss.h is None:
            self._do(['unify', r.reg, a.reg, b.reg, ss.reg], lambda: None, lambda _: 'skip'); return r
        def go():
            o = self.m.call(self.fn('Unifiable', 'unify'), [Ptr(Cell(a.h)), Ptr(Cell(b.h)), Ptr(Cell(ss.h))])
            r.h = o.fields[0].v if o.vidx == 1 else None
            return o.vidx == 1
        ok = self._do(['unify', r.reg, a.reg, b.reg, ss.reg], go, lambda k: 'S' if k else 'N')
        return r

    def dumpss(self, ss):
        if ss.h is None:
            self._do(['dumpss', ss.reg], lambda: None, lambda _: 'skip'); return None
        return self._do(['dumpss', ss.reg], lambda: self.hp.read_ss(ss.h), H.dump_ss)

    def sameptr(self, a, b):
        if a.h is None or b.h is None:
            self._do(['sameptr', a.reg, b.reg], lambda: None, lambda _: 'skip'); return None
        return self._do(['sameptr', a.reg, b.reg], lambda: a.h.cell is b.h.cell, lambda k: 'same' if k else 'diff')

    def resolve(self, t, ss):
        """Unifiable::replace_variables -> pterm"""
        if ss.h is None:
            self._do(['resolve', t.reg, ss.reg], lambda: None, lambda _: 'skip'); return None
        def go():
            o = self.m.call(self.fn('Unifiable', 'replace_variables'), [Ptr(Cell(t.h)), Ptr(ss.h.cell)])
            return self.hp.read(o)
        return self._do(['resolve', t.reg, ss.reg], go, H.dump)

    def ground(self, t, ss):
        if ss.h is None:
            self._do(['ground', t.reg, ss.reg], lambda: None, lambda _: 'skip'); return None
        def go():
            o = self.m.call('substitution_set::get_ground_term', [Ptr(Cell(t.h)), Ptr(ss.h.cell)])
            return None if o.vidx == 0 else self.hp.read(o.fields[0].v)
        return self._do(['ground', t.reg, ss.reg], go, lambda p: 'None' if p is None else H.dump(p))

    def isground(self, t, ss):
        if ss.h is None:
            self._do(['isground', t.reg, ss.reg], lambda: None, lambda _: 'skip'); return None
        go = lambda: self.m.call('substitution_set::is_ground_variable', [Ptr(Cell(t.h)), Ptr(ss.h.cell)])
        return self._do(['isground', t.reg, ss.reg], go, lambda b: 'true' if b else 'false')

    def isbound(self, t, ss):
        if ss.h is None:
            self._do(['isbound', t.reg, ss.reg], lambda: None, lambda _: 'skip'); return None
        go = lambda: self.m.call('substitution_set::is_bound', [Ptr(Cell(t.h)), Ptr(ss.h.cell)])
        return self._do(['isbound', t.reg, ss.reg], go, lambda b: 'true' if b else 'false')

    def show(self, r):
        """Display text of a term / goal / rule register (concrete values only)"""
        from mirsym.models import render_display
        if r.h is None:
            self._do(['show', r.reg], lambda: None, lambda _: 'skip'); return None
        go = lambda: render_display(self.m, Ptr(Cell(r.h)))       # list of characters (symbolic ones stay Sym)
        return self._do(['show', r.reg], go, lambda cs: ''.join(cs))

    def dump(self, r):
        if r.h is None:
            self._do(['dump', r.reg], lambda: None, lambda _: 'skip'); return None
        if r.kind == 'term': return self._do(['dump', r.reg], lambda: self.hp.read(r.h), H.dump)
        if r.kind == 'goal': return self._do(['dump', r.reg], lambda: self.hp.read_goal(r.h), H.dump_goal)
        if r.kind == 'rule': return self._do(['dump', r.reg], lambda: self.hp.read_rule(r.h), H.dump_rule)
        if r.kind == 'terms':
            return self._do(['dump', r.reg], lambda: [self.hp.read(c.v) for c in r.h.items],
                            lambda ts: '[' + ','.join(H.dump(t) for t in ts) + ']')
        raise Unsupported('dump of ' + r.kind)

    # ------------------------------------------------------------ variable ids / renaming
    def setid(self, n):
        self._do(['setid', n], lambda: self.m.call('logic_var::set_var_id', [n]), lambda _: 'ok')

    def getid(self):
        return self._do(['getid'], lambda: self.m.call('logic_var::get_var_id', []), lambda v: str(v))

    def recreate(self, src):
        r = self.new(None, src.kind)
        def go():
            vm = self.m.call('HashMap::new', [])
            from mirsym.models import deep_clone
            c = deep_clone(self.m, src.h)
            ty = {'term': 'Unifiable', 'goal': 'Goal', 'rule': 'Rule'}[src.kind]
            r.h = self.m.call(self.fn(ty, 'recreate_variables'), [c, Ptr(Cell(vm))])
            return r.h
        rd = {'term': (self.hp.read, H.dump), 'goal': (self.hp.read_goal, H.dump_goal), 'rule': (self.hp.read_rule, H.dump_rule)}[src.kind]
        self._do(['recreate', r.reg, src.reg], go, lambda h: rd[1](rd[0](h)))
        return r

    def mklist(self, vbar, items):
        r = self.new(None, 'term')
        def go():
            from mirsym.models import deep_clone
            v = VecV([Cell(deep_clone(self.m, x.h)) for x in items])
            r.h = self.m.call('s_linked_list::make_linked_list', [vbar, v]); return r.h
        self._do(['mklist', r.reg, bool(vbar), [x.reg for x in items]], go, lambda h: H.dump(self.hp.read(h)))
        return r

    # ------------------------------------------------------------ parsers
    PARSERS = {
        'term': ('parse_terms::parse_term', 'term'), 'list': ('s_linked_list::parse_linked_list', 'term'),
        'complex': ('s_complex::parse_complex', 'term'), 'function': ('built_in_functions::parse_function', 'term'),
        'logicvar': ('logic_var::make_logic_var', 'term'), 'args': ('parse_terms::parse_arguments', 'terms'),
        'query': ('s_complex::parse_query', 'goal'), 'subgoal': ('parse_goals::parse_subgoal', 'goal'),
        'goal': ('tokenizer::generate_goal', 'goal'), 'rule': ('rule::parse_rule', 'rule'),
    }

    def parse(self, kind, text):
        """text: python str or list of chars (some Sym).  returns (R or None, ('ok', value)|('err', msg))"""
        chars = list(text)
        r = self.new(None, self.PARSERS[kind][1] if kind in self.PARSERS else 'none')
        def go():
            s = RStr(chars)
            if kind in self.PARSERS:
                fname, rk = self.PARSERS[kind]
                arg = s if kind == 'logicvar' else StrRef(s)
                o = self.m.call(fname, [arg])
                if o.variant == 'Ok':
                    r.h = o.fields[0].v
                    return ('ok', r.h)
                return ('err', o.fields[0].v)
            if kind == 'check_quotes':
                n = 0
                for c in chars:
                    if isinstance(c, str): n += (c == '"')
                    elif self.m.branch(self.m.binop('Eq', c, '"')): n += 1
                o = self.m.call('parse_terms::check_quotes', [StrRef(s), n])
                return ('err', o.fields[0].v) if o.vidx == 1 else ('ok', None)
            if kind in ('infix', 'arith_infix'):
                v = VecV([Cell(c) for c in chars])
                o = self.m.call('infix::check_infix' if kind == 'infix' else 'infix::check_arithmetic_infix', [Ptr(Cell(v))])
                return ('ok', o)
            raise Unsupported('parser ' + kind)
        def obs(res):
            if res[0] == 'err': return 'Err:' + H.as_chars_str(res[1])
            if kind in self.PARSERS:
                rk = self.PARSERS[kind][1]
                if rk == 'term': return 'Ok:' + H.dump(self.hp.read(res[1]))
                if rk == 'goal': return 'Ok:' + H.dump_goal(self.hp.read_goal(res[1]))
                if rk == 'rule': return 'Ok:' + H.dump_rule(self.hp.read_rule(res[1]))
                if rk == 'terms': return 'Ok:[' + ','.join(H.dump(self.hp.read(c.v)) for c in res[1].items) + ']'
            if kind == 'check_quotes': return 'Ok:'
            if kind in ('infix', 'arith_infix'):
                o = res[1]
                return 'Ok:%s,%d' % (o.fields[0].v.variant, o.fields[1].v)
        res = self._do(['parse', r.reg, kind, text], go, obs)
        return r, res

    # ------------------------------------------------------------ goals, rules, knowledge bases, search
    def goal(self, g):
        r = self.new(None, 'goal')
        def go():
            r.h = self.hp.build_goal(g); return r.h
        self._do(['goal', r.reg, g], go, lambda h: H.dump_goal(self.hp.read_goal(h)))
        return r

    def rule(self, head, body=None):
        r = self.new(None, 'rule')
        def go():
            from mirsym.models import deep_clone
            hd = deep_clone(self.m, head.h)
            if body is None:
                r.h = self.m.call('knowledge_base::make_fact', [hd])
            else:
                r.h = self.m.call('knowledge_base::make_rule', [hd, deep_clone(self.m, body.h)])
            return r.h
        self._do(['rule', r.reg, head.reg, None if body is None else body.reg], go,
                 lambda h: H.dump_rule(self.hp.read_rule(h)))
        return r

    def kb(self, rules):
        r = self.new(None, 'kb')
        def go():
            from mirsym.models import deep_clone
            k = self.m.call('HashMap::new', [])
            v = VecV([Cell(deep_clone(self.m, x.h)) for x in rules])
            self.m.call('knowledge_base::add_rules', [Ptr(Cell(k)), v])
            r.h = k
        self._do(['kb', r.reg, [x.reg for x in rules]], go, lambda _: 'ok')
        return r

    def showkb(self, kb):
        go = lambda: H.as_chars_str(self.m.call('knowledge_base::format_kb', [Ptr(Cell(kb.h))]))
        return self._do(['showkb', kb.reg], go, lambda s: s)

    def getrule(self, kb, key, index):
        r = self.new(None, 'rule')
        def go():
            r.h = self.m.call('knowledge_base::get_rule', [Ptr(Cell(kb.h)), StrRef(RStr(key)), index]); return r.h
        self._do(['getrule', r.reg, kb.reg, key, index], go, lambda h: H.dump_rule(self.hp.read_rule(h)))
        return r

    def loadkb(self, text, into=None):
        """load_kb_from_file on an in-memory file (mirsym) / a temp file (native); into: a copy of that knowledge base is loaded into"""
        r = self.new(None, 'kb')
        def go():
            self.m.vfs['<file>'] = RStr(list(text))
            if into is not None:
                from mirsym.models import deep_clone
                k = deep_clone(self.m, into.h)
            else:
                k = self.m.call('HashMap::new', [])
            o = self.m.call('rule_reader::load_kb_from_file', [Ptr(Cell(k)), StrRef(RStr('<file>'))])
            r.h = k
            return None if o.vidx == 0 else H.as_chars_str(o.fields[0].v)
        res = self._do(['loadkb', r.reg, text] + ([into.reg] if into is not None else []), go, lambda e: 'Ok' if e is None else 'Err:' + e)
        return r, res

    def query(self, terms):
        r = self.new(None, 'goal')
        def go():
            from mirsym.models import deep_clone
            v = VecV([Cell(deep_clone(self.m, x.h)) for x in terms])
            r.h = self.m.call('s_complex::make_query', [v]); return r.h
        self._do(['query', r.reg, [x.reg for x in terms]], go, lambda h: H.dump_goal(self.hp.read_goal(h)))
        return r

    def base(self, goal, kb):
        r = self.new(None, 'node')
        def go():
            from mirsym.models import deep_clone
            rc = RcV(Cell(deep_clone(self.m, goal.h)))
            r.h = self.m.call('goal::make_base_node', [rc, Ptr(Cell(kb.h))])
        self._do(['base', r.reg, goal.reg, kb.reg], go, lambda _: 'ok')
        return r

    def node(self, goal, kb, ss):
        r = self.new(None, 'node')
        if ss.h is None:
            self._do(['node', r.reg, goal.reg, kb.reg, ss.reg], lambda: None, lambda _: 'skip'); return r
        def go():
            from mirsym.models import deep_clone
            pg = self.hp.build_goal(('gc', ('cplx', (('atom', 'vparent'),))))
            parent = self.m.call('goal::make_base_node', [RcV(Cell(pg)), Ptr(Cell(kb.h))])
            rc = RcV(Cell(deep_clone(self.m, goal.h)))
            r.h = self.m.call('goal::make_solution_node', [rc, Ptr(Cell(kb.h)), ss.h, parent])
        self._do(['node', r.reg, goal.reg, kb.reg, ss.reg], go, lambda _: 'ok')
        return r

    def next(self, node):
        r = self.new(None, 'ss')
        if node.h is None:
            self._do(['next', r.reg, node.reg], lambda: None, lambda _: 'skip'); return r
        def go():
            o = self.m.call('solution_node::next_solution', [node.h])
            r.h = o.fields[0].v if o.vidx == 1 else None
            return o.vidx == 1
        self._do(['next', r.reg, node.reg], go, lambda k: 'S' if k else 'N')
        return r

    def answer(self, goal, ss):
        if ss.h is None:
            self._do(['answer', goal.reg, ss.reg], lambda: None, lambda _: 'skip'); return None
        def go():
            o = self.m.call(self.fn('Goal', 'replace_variables'), [Ptr(Cell(goal.h)), Ptr(ss.h.cell)])
            return self.hp.read(o)
        return self._do(['answer', goal.reg, ss.reg], go, H.dump)

    def fmtsol(self, goal, ss):
        if ss.h is None:
            self._do(['fmtsol', goal.reg, ss.reg], lambda: None, lambda _: 'skip'); return None
        def go():
            o = self.m.call(self.fn('Goal', 'replace_variables'), [Ptr(Cell(goal.h)), Ptr(ss.h.cell)])
            s = self.m.call('solutions::format_solution', [Ptr(Cell(goal.h)), Ptr(Cell(o))])
            return H.as_chars_str(s)
        return self._do(['fmtsol', goal.reg, ss.reg], go, lambda s: s)

    def solve(self, node):
        go = lambda: H.as_chars_str(self.m.call('solutions::solve', [node.h]))
        return self._do(['solve', node.reg], go, lambda s: s)

    def solve_all(self, node):
        def go():
            v = self.m.call('solutions::solve_all', [node.h])
            return [H.as_chars_str(c.v) for c in v.items]
        return self._do(['solve_all', node.reg], go, lambda v: ','.join(H.quote(s) for s in v))

    def stop(self):
        self._do(['stop'], lambda: self.m.call('time_out::stop_query', []), lambda _: 'ok')

    def stopped(self):
        return self._do(['stopped'], lambda: self.m.call('time_out::query_stopped', []), lambda b: 'true' if b else 'false')

    def stop_at(self, n):
        """raise the stop flag at the n-th observation of it from now on (n = -1: never)"""
        def go():
            self.m.stop_countdown = n
        self._do(['stop_at', n], go, lambda _: 'ok')

    def expire(self):
        """what the end of any search that exceeded its limit does, through the public API: start_query_timer(), the timer
        thread fires (really, natively), cancel_timer()"""
        def go():
            t = self.m.call('time_out::start_query_timer', [1])
            if self.m.timer is not None: self.m.timer['fired'] = True
            self.m.call('time_out::stop_query', [])
            self.m.call('time_out::cancel_timer', [t])
        self._do(['expire'], go, lambda _: 'ok')

    def evalf(self, name, args, ss):
        if ss.h is None:
            self._do(['evalf', name, [a.reg for a in args], ss.reg], lambda: None, lambda _: 'skip'); return None
        fn = {'add': 'built_in_arithmetic::evaluate_add', 'subtract': 'built_in_arithmetic::evaluate_subtract',
              'multiply': 'built_in_arithmetic::evaluate_multiply', 'divide': 'built_in_arithmetic::evaluate_divide',
              'join': 'built_in_join::evaluate_join'}[name]
        def go():
            from mirsym.models import deep_clone
            v = VecV([Cell(deep_clone(self.m, a.h)) for a in args])
            return self.hp.read(self.m.call(fn, [Ptr(Cell(v)), Ptr(Cell(ss.h))]))
        return self._do(['evalf', name, [a.reg for a in args], ss.reg], go, H.dump)

    def count_terms(self, t, ss):
        go = lambda: self.m.call('s_linked_list::count_terms', [Ptr(Cell(t.h)), Ptr(Cell(ss.h))])
        return self._do(['count_terms', t.reg, ss.reg], go, lambda v: str(v))

    def fmtprint(self, strings):
        def go():
            v = VecV([Cell(RStr(list(s))) for s in strings])
            return H.as_chars_str(self.m.call('built_in_print::format_for_print_pred', [Ptr(Cell(v))]))
        return self._do(['fmtprint', strings], go, lambda s: s)


    def head(self, rule):
        """the head term of a rule register"""
        r = self.new(None, 'term')
        def go():
            r.h = rule.h.fields[self.m.structs['Rule'].index('head')].v; return r.h
        self._do(['head', r.reg, rule.reg], go, lambda h: H.dump(self.hp.read(h)))
        return r

    def body(self, rule):
        r = self.new(None, 'goal')
        def go():
            r.h = rule.h.fields[self.m.structs['Rule'].index('body')].v; return r.h
        self._do(['body', r.reg, rule.reg], go, lambda h: H.dump_goal(self.hp.read_goal(h)))
        return r

    def gterm(self, goal):
        """the complex term inside a ComplexGoal register"""
        r = self.new(None, 'term')
        def go():
            if goal.h.variant != 'ComplexGoal': raise Unsupported('gterm on ' + goal.h.variant)
            r.h = goal.h.fields[0].v; return r.h
        self._do(['gterm', r.reg, goal.reg], go, lambda h: H.dump(self.hp.read(h)))
        return r

    def arg(self, term, i):
        """i-th element of an SComplex register (0 = functor)"""
        r = self.new(None, 'term')
        def go():
            r.h = term.h.fields[0].v.items[i].v; return r.h
        self._do(['arg', r.reg, term.reg, i], go, lambda h: H.dump(self.hp.read(h)))
        return r


    def dumpkb(self, kb):
        """every rule of a knowledge base, keys sorted, no renaming"""
        def go():
            out = []
            for k, cell in sorted(kb.h.e, key=lambda e: e[0].concrete()):
                out.append((k.concrete(), [self.hp.read_rule(c.v) for c in cell.v.items]))
            return out
        return self._do(['dumpkb', kb.reg], go, lambda v: ';'.join('%s=[%s]' % (k, ','.join(H.dump_rule(r) for r in rs)) for k, rs in v))

    # ------------------------------------------------------------ export
    def scenario_json(self):
        """the recorded ops as vreplay JSON (concrete mode only)"""
        out = []
        for op in self.ops:
            o = list(op)
            if o[0] == 'term': o[2] = H.spec(o[2])
            elif o[0] == 'goal': o[2] = H.goal_spec(o[2])
            elif o[0] == 'parse': o[3] = ''.join(o[3])
            elif o[0] == 'loadkb': o[2] = ''.join(o[2])
            out.append(o)
        return {'ops': out}
