"""C08 - variable bindings never form a cycle; resolving always terminates."""
import itertools
from mirsym.machine import PathInfeasible
from . import unify_common as UC
from . import c06
from .. import universe as U
from .. import refunify as R
from ..engine import Violation
from ..driver import ScenarioEnd

ANCHORS = UC.ANCHORS + ['get_ground_term', 'is_ground_variable', 'replace_variables', 'next_solution']
WITNESSES = {'all': ['alias-chain', 'realias', 'success', 'program', 'program-has-answers']}
OPTS = {'quick': {'selfcheck_mod': 60, 'budget_s': 240}, 'thorough': {'selfcheck_mod': 1500, 'budget_s': 2400}}
STEP_LIMIT = 60_000
NATIVE_TIMEOUT = 5.0
BOUNDS = {
    'quick': 'all histories of 1-3 successful unifications whose operands are drawn from {$V1,$V2,$V3, a, symbolic int, f($V1), f($V2), [$V1], [a | $V2], []} '
             '(both operand orders, each step through the real unify, occurs-check histories dropped by the reference); after every step: chain walk, '
             'get_ground_term / is_ground_variable / replace_variables on every variable under a 60k-statement step limit, and re-unification of every aliased pair in both orders; the 3-step alias histories are repeated with variable ids 64 and 128 apart (3/67/70, 1/65/129, 6/70/134); '
             'programs t($A, $B, $C) :- BODY with BODY = all 2-goal and every 5th 3-goal conjunction over 15 goals that alias variables through rule heads (same($W, $W), facts holding a variable inside f(..) / a list, swap/3, rules that unify or call same/2 with swapped arguments, `=`): after every answer the chain walk on the answer\'s substitution set, the answer resolved under the step limit, and the answers compared with the reference',
    'thorough': 'histories of up to 4 steps over the same operand set plus $V4, f($V3), [$V3 | $V1]',
}
OUTSIDE = 'histories in which the reference unifier needs an occurs check; function terms'
ASSUMPTIONS = ['a history step on which the real unify fails ends the history (only sequences of successful unifications are in the claim)']

OPS_Q = [['v', 1], ['v', 2], ['v', 3], ['a'], ['i'], ['f', ['v', 1]], ['f', ['v', 2]], ['l', 'p', [['v', 1]], None], ['l', 'p', [['a']], ['v', 2]], ['e']]
OPS_T = OPS_Q + [['v', 4], ['f', ['v', 3]], ['l', 'p', [['v', 3]], ['v', 1]]]


# programs that alias variables through rule heads (the second half of the quantifier)
from .. import progs as P
from .. import refsld as S
from ..progs import V, A, C, L, I, gc, U as UNI, AND
from . import prog_common as PC
PA, PB, PC_, PW, PY, PZ = V('A'), V('B'), V('C'), V('W'), V('Y'), V('Z')
PKB = [
    (C('pf', C('f', PY)), None), (C('pl', L(PY, tail=PZ)), None), (C('same', PW, PW), None), (C('swap', PW, PY, C('k', PY, PW)), None),
    (C('alias', PW, PY), UNI(PW, PY)), (C('via', PW, PY), gc('same', PY, PW)), (C('any', PW), None), (C('one', I(1)), None),
]
PMENU = [gc('pf', PA), gc('pf', PB), gc('pl', PA), gc('same', PA, PB), gc('same', PB, PA), gc('same', PB, PC_), gc('same', PC_, PA), gc('alias', PA, PB),
         gc('alias', PC_, PB), gc('via', PA, PC_), gc('swap', PA, PB, PC_), gc('any', PB), gc('one', PC_), UNI(PA, PB), UNI(PC_, PA)]


def steps(ops):
    out = []
    for a in ops:
        for b in ops:
            if a == b: continue
            if not (U.has(a, 'v') or U.has(b, 'v')): continue
            out.append((a, b))
    return out


def cases(tier, seed):
    ops = OPS_Q if tier == 'quick' else OPS_T
    st = steps(ops)
    varsteps = [(a, b) for a, b in st if a[0] == 'v' or b[0] == 'v']
    out = []
    def add(h): out.append({'id': ' ; '.join('%s=%s' % (U.text(a), U.text(b)) for a, b in h) + '|%d' % len(out), 'hist': [list(x) for x in h]})
    for s in st: add([s])
    for s1 in varsteps:
        for s2 in st: add([s1, s2])
    vv = [(a, b) for a, b in st if a[0] == 'v' and b[0] == 'v']
    v1 = [(a, b) for a, b in varsteps if U.size(a) + U.size(b) <= 2]
    for s1 in vv:
        for s2 in v1:
            for s3 in (v1 if tier == 'quick' else varsteps): add([s1, s2, s3])
    # the same alias histories with variable ids far apart (64 and 128 apart, beyond one machine word of any id bit set)
    for idmap in ([3, 67, 70], [1, 65, 129], [6, 70, 134]):
        for s1 in vv:
            for s2 in vv:
                for s3 in vv:
                    out.append({'id': 'ids %s: ' % idmap + ' ; '.join('%s=%s' % (U.text(a), U.text(b)) for a, b in (s1, s2, s3)) + '|%d' % len(out),
                                'hist': [list(x) for x in (s1, s2, s3)], 'idmap': idmap})
    if tier != 'quick':
        for s1 in vv:
            for s2 in vv:
                for s3 in vv:
                    for s4 in v1: add([s1, s2, s3, s4])
    bodies = [AND(g, h) for g in PMENU for h in PMENU if g != h]
    three = [AND(g, h, k) for g in PMENU for h in PMENU for k in PMENU if g != h and h != k]
    bodies += three[::5] if tier == 'quick' else three
    for b in bodies:
        out.append({'id': 'program t($A, $B, $C) :- %s|%d' % (P.gtext(b), len(out)), 'fam': 'prog', 'body': PC.jsonable(b)})
    return out


def after_step(drv, ss, vars_seen, desc):
    m = drv.m
    cur = drv.dumpss(ss)
    cyc = R.impl_chain_ok(cur)
    if cyc is not None:
        raise Violation('cycle', '%s: following bindings from variable %d never ends (%s)' % (desc, cyc, [R.show(e) if e else '-' for e in cur]))
    tags = []
    for vid, v in sorted(vars_seen.items()):
        tv = drv.term(v)
        try:
            drv.ground(tv, ss); drv.isground(tv, ss); drv.resolve(tv, ss)
        except ScenarioEnd as e:
            raise Violation('resolve-hangs', '%s: resolving %s does not terminate (%s)' % (desc, R.show(v), e.why[0]))
    # aliased pairs: unifying them again, in either order, adds no binding
    ids = sorted(vars_seen)
    isub = R.impl_sub(cur)
    for i, j in itertools.combinations(ids, 2):
        ri, rj = R.resolve_impl(vars_seen[i], isub), R.resolve_impl(vars_seen[j], isub)
        if ri[0] == 'var' and rj[0] == 'var' and ri[1] == rj[1]:
            tags.append('realias')
            for x, y in ((i, j), (j, i)):
                r = drv.unify(drv.term(vars_seen[x]), drv.term(vars_seen[y]), ss)
                if r.h is None:
                    raise Violation('realias-fails', '%s: unifying the aliased %s and %s again fails' % (desc, R.show(vars_seen[x]), R.show(vars_seen[y])))
                nxt = drv.dumpss(r)
                if len(nxt) != len(cur) or any(not UC.struct_eq(m, p, q) for p, q in zip(nxt, cur)):
                    raise Violation('realias-binds', '%s: unifying the aliased %s and %s again changes the bindings to %s' % (
                        desc, R.show(vars_seen[x]), R.show(vars_seen[y]), [R.show(e) if e else '-' for e in nxt]))
    return tags


def run_prog(drv, case):
    m = drv.m
    body = PC.untuple(case['body'])
    clauses = PKB + [(C('t', PA, PB, PC_), body)]
    query = C('t', PA, PB, PC_)
    desc = case['id'].split('|')[0]
    try:
        ref = P.ref_search(m, clauses, query, 4)
    except S.Outside:
        return {'tags': ['occurs-check-outside-claim'], 'nontrivial': False}
    kb = P.build_kb(drv, clauses)
    q = drv.query([drv.term(t) for t in query[1]])
    node = drv.base(q, kb)
    run_ = P.Run(); run_.answers, run_.outs, run_.exhausted = [], [], False
    try:
        for i in range(5):
            r = drv.next(node)
            run_.outs.append(drv.outs[-1])
            if r.h is None: run_.exhausted = True; break
            cur = drv.dumpss(r)
            cyc = R.impl_chain_ok(cur)
            if cyc is not None:
                raise Violation('program-cycle', '%s: after answer %d, following bindings from variable %d never ends (%s)' % (desc, i + 1, cyc, [R.show(e) if e else '-' for e in cur]))
            try:
                run_.answers.append(drv.answer(q, r))
            except ScenarioEnd as e:
                raise Violation('program-resolve-hangs', '%s: resolving answer %d does not terminate (%s)' % (desc, i + 1, e.why[0]))
    except ScenarioEnd as e:
        raise Violation('program-search-%s' % e.why[0], '%s: %s' % (desc, e.why[1][:200]))
    problem = P.compare_runs(m, run_, ref, desc)
    if problem is not None: raise Violation('program-' + problem[0], problem[1])
    return {'tags': ['program'] + (['program-has-answers'] if run_.answers else []), 'note': desc}


def run(drv, case):
    if case.get('fam') == 'prog': return run_prog(drv, case)
    m = drv.m
    ss, sub, vars_seen = drv.ss0(), {}, {}
    tags = set()
    done = []
    idmap = case.get('idmap')
    def remap(t):
        if idmap is None or not isinstance(t, tuple): return t
        if t and t[0] == 'var' and isinstance(t[1], int) and 1 <= t[1] <= len(idmap): return ('var', idmap[t[1] - 1], t[2])
        return tuple(remap(x) for x in t)
    for n, (A, B) in enumerate(case['hist']):
        a = remap(U.inst(m, A, 'a%d' % n)); b = remap(U.inst(m, B, 'b%d' % n))
        aa, ab = UC.build_pterm(a), UC.build_pterm(b)
        R.vars_of(aa, vars_seen); R.vars_of(ab, vars_seen)
        try:
            sub2 = R.unify(m, aa, ab, sub)
        except R.OccursCheck:
            return {'tags': ['occurs-check-outside-claim'], 'nontrivial': False}
        r = drv.unify(drv.term(a), drv.term(b), ss)
        done.append('%s = %s' % (U.text(A), U.text(B)))
        if r.h is None or sub2 is None:
            # only sequences of successful unifications are in the claim (success agreement is C06)
            return {'tags': list(tags) + ['history-ended-by-failure'], 'nontrivial': n > 0}
        tags.add('success')
        if A[0] == 'v' and B[0] == 'v': tags.add('alias-chain')
        tags.update(after_step(drv, r, vars_seen, ', '.join(done)))
        ss, sub = r, sub2
    return {'tags': list(tags), 'note': ', '.join(done)}
