import sys, time
sys.path.insert(0, '.')
from mirsym import *
from models import *
m = Machine(open('/tmp/mirprobe/suiron0.mir').read(), '/repo/src')
m.vfs = {'kings.txt': open('/repo/tests/kings.txt').read(),
         'f1.txt': "p($X) :- $X = 3.5, q($X).\nq(3.5).\n",
         'f2.txt': "p($X) :-\n  q($X),\n  r($X). % c\n\nq(a).\n"}
for f in ['kings.txt','f1.txt','f2.txt']:
    m.reset([]) if False else None
    kb = MapV()
    t0=time.time()
    try:
        r = m.call('rule_reader::load_kb_from_file', [Ptr(Cell(kb)), StrRef(RStr(f))])
        out = m.call('knowledge_base::format_kb', [Ptr(Cell(kb))])
        print(f, r, round(time.time()-t0,3)); print(out.concrete()[:700])
    except (RustPanic, Unsupported) as e:
        print(f, type(e).__name__, e)
