"""The program universe P (DESIGN §3) and the comparison of the engine's search with the reference interpreter.

Programs are data: a list of clauses (head spec, body goal spec | None).  Term specs are the build specs of
heap.py (with 'plist'); variables are ('var', 0, '$Name'); ('symint', 'I') stands for a symbolic i64 shared by
all its occurrences.  The same clauses are given to the engine (through make_rule / add_rules / make_query) and
to the reference interpreter (refsld.Interp).
"""
import itertools
from mirsym.machine import Sym, PathInfeasible
from .engine import Violation
from .driver import ScenarioEnd
from . import refunify as R
from . import refsld as S
from . import heap as H


def V(n): return ('var', 0, '$' + n)
def A(s): return ('atom', s)
def C(f, *args): return ('cplx', (A(f),) + tuple(args))
def L(*items, tail=None): return ('plist', tuple(items), tail)
def I(n): return ('int', n)
def gc(f, *args): return ('gc', C(f, *args))
def gb(name, *args): return ('gb', name, tuple(args) if args or name not in ('!', 'fail', 'nl') else None)
def AND(*gs): return ('gand', tuple(gs))
def OR(*gs): return ('gor', tuple(gs))
def NOT(g): return ('gnot', (g,))
def U(a, b): return ('gb', 'unify', (a, b))
def F(name, *args): return ('func', name, tuple(args))


X, Y, Z, W, T_, H_, N_, M_ = V('X'), V('Y'), V('Z'), V('W'), V('T'), V('H'), V('N'), V('M')
SI, SJ = ('symint', 'I'), ('symint', 'J')

BASE = [
    (C('p', A('a')), None), (C('p', A('b')), None), (C('p', SI), None),
    (C('q', A('b')), None), (C('q', SJ), None), (C('q', A('c')), None),
    (C('r', A('a'), A('b')), None), (C('r', A('b'), A('c')), None), (C('r', A('b'), A('a')), None),
    (C('s'), None),
    (C('n', I(1)), None), (C('n', I(5)), None),
    (C('l', L(A('a'), A('b'))), None), (C('l', L()), None),
    (C('member', X, L(X, tail=('anon',))), None),
    (C('member', X, L(('anon',), tail=T_)), gc('member', X, T_)),
    (C('len', L(), I(0)), None),
    (C('len', L(('anon',), tail=T_), N_), AND(gc('len', T_, M_), U(N_, F('add', M_, I(1))))),
    (C('app', L(), Y, Y), None),
    (C('app', L(H_, tail=T_), Y, L(H_, tail=Z)), gc('app', T_, Y, Z)),
    (C('eq', X, X), None),
    # facts whose variables stay unbound inside a compound term / list, duplicate facts, a fact followed by a rule for the same goal
    (C('h', C('box', Z)), None), (C('h', L(Z, tail=W)), None),
    (C('d', A('a')), None), (C('d', A('a')), None), (C('d', A('b')), None), (C('d', X), gc('q', X)),
    (C('pr', X, Y, C('k', Y, X)), None),
    # stored lists whose last element is a list / the empty list
    (C('nl', L(L(A('a'), I(1)), L(A('b'), I(2)))), None), (C('nl', L(A('d'), L())), None), (C('nl', L(X, L(X, L(A('e'))))), None),
    # a first answer that binds nothing followed by one that binds; facts whose every argument is `$_`
    (C('u', ('anon',)), None), (C('u', I(5)), None), (C('any', ('anon',)), None), (C('any2', ('anon',), ('anon',)), None),
    # predicates defined by rules only: their first answer already comes out of a live rule body
    (C('via1', X), gc('q', X)), (C('via2', X), OR(gc('p', X), gc('q', X))), (C('via3', X), gc('member', X, L(A('a'), A('b'), A('c')))),
    (C('via4', X), AND(gc('r', X, Y), gc('q', Y))),
]


def inst(m, t, syms):
    """replace ('symint', name) by a (shared) symbolic i64"""
    if not isinstance(t, tuple): return t
    if t and t[0] == 'symint':
        if t[1] not in syms: syms[t[1]] = m.fresh('data.' + t[1], 'i64')     # (a caller may have put concrete values there)
        return ('int', syms[t[1]])
    return tuple(inst(m, x, syms) for x in t)


def to_abs(t):
    """build spec -> abstract term / goal for the reference"""
    k = t[0]
    if k == 'plist': return ('lst', tuple(to_abs(x) for x in t[1]), None if t[2] is None else to_abs(t[2]))
    if k == 'cplx': return ('cplx', tuple(to_abs(x) for x in t[1]))
    if k == 'func': return ('func', t[1], tuple(to_abs(x) for x in t[2]))
    if k == 'gc': return ('gc', to_abs(t[1]))
    if k == 'gb': return ('gb', t[1], None if t[2] is None else tuple(to_abs(x) for x in t[2]))
    if k in ('gand', 'gor', 'gnot', 'gtime'): return (k, tuple(to_abs(x) for x in t[1]))
    return t


def gtext(g):
    k = g[0]
    if k == 'gc': return ttext(g[1])
    if k == 'gb':
        if g[1] == 'unify': return '%s = %s' % (ttext(g[2][0]), ttext(g[2][1]))
        if g[2] is None: return g[1]
        return '%s(%s)' % (g[1], ', '.join(ttext(x) for x in g[2]))
    if k == 'gand': return ', '.join(('(%s)' % gtext(x)) if x[0] == 'gor' else gtext(x) for x in g[1])
    if k == 'gor': return '; '.join(gtext(x) for x in g[1])
    if k == 'gnot': return 'not(%s)' % gtext(g[1][0])
    if k == 'gtime': return 'time(%s)' % gtext(g[1][0])
    return repr(g)


def ttext(t):
    k = t[0]
    if k == 'atom': return t[1] if isinstance(t[1], str) else '<atom>'
    if k == 'int': return str(t[1]) if not isinstance(t[1], Sym) else '<int>'
    if k == 'float': return repr(t[1])
    if k == 'symint': return '<%s>' % t[1]
    if k == 'var': return t[2]
    if k == 'anon': return '$_'
    if k == 'cplx': return ttext(t[1][0]) + ('(' + ', '.join(ttext(x) for x in t[1][1:]) + ')' if len(t[1]) > 1 else '')
    if k == 'plist':
        s = ', '.join(ttext(x) for x in t[1])
        if t[2] is not None: s += ' | ' + ttext(t[2])
        return '[' + s + ']'
    if k == 'func': return t[1] + '(' + ', '.join(ttext(x) for x in t[2]) + ')'
    return repr(t)


def ctext(c):
    return ttext(c[0]) + ('.' if c[1] is None else ' :- ' + gtext(c[1]) + '.')


def bodies(menu, maxgoals, shapes=None):
    """all bodies of up to maxgoals goals from the menu in the stated conjunction/disjunction shapes"""
    out = []
    for g in menu: out.append(g)
    if maxgoals >= 2:
        for g, h in itertools.product(menu, repeat=2):
            out.append(AND(g, h)); out.append(OR(g, h))
    if maxgoals >= 3:
        for g, h, k in itertools.product(menu, repeat=3):
            out.append(AND(g, h, k)); out.append(OR(g, h, k)); out.append(OR(AND(g, h), k)); out.append(OR(g, AND(h, k)))
            out.append(AND(g, OR(h, k))); out.append(AND(OR(g, h), k))
    return out


class Run:
    """everything observed from one search"""
    pass


def build_kb(drv, clauses):
    rules = []
    for head, body in clauses:
        hr = drv.term(head)
        rules.append(drv.rule(hr, None if body is None else drv.goal(body)))
    return drv.kb(rules)


def impl_search(drv, kb, query, max_answers=10, reask=0):
    """make_query + make_base_node + next_solution until None (or max_answers).  -> Run"""
    q = drv.query([drv.term(t) for t in query[1]])
    node = drv.base(q, kb)
    run = Run(); run.q = q; run.node = node
    run.answers, run.outs, run.exhausted, run.after = [], [], False, []
    for i in range(max_answers + 1):
        r = drv.next(node)
        run.outs.append(drv.outs[-1])
        if r.h is None:
            run.exhausted = True; break
        run.answers.append(drv.answer(q, r))
    if run.exhausted:
        for i in range(reask):
            r = drv.next(node)
            run.after.append((r.h is not None, drv.outs[-1]))
    return run


def ref_search(m, clauses, query, max_answers=10, mode='suiron', budget=4000):
    """-> (answers, out segments, exhausted, interp).  Raises S.Outside."""
    it = S.Interp(m, [(to_abs(h), None if b is None else to_abs(b)) for h, b in clauses], budget=budget, disj_mode=mode)
    answers, segs = [], []
    mark = 0
    gen = it.query(to_abs(query))
    exhausted = False
    try:
        for i in range(max_answers + 1):
            try:
                ans, sub = next(gen)
            except StopIteration:
                exhausted = True
                segs.append(''.join(it.out[mark:])); break
            segs.append(''.join(it.out[mark:])); mark = len(it.out)
            answers.append(ans)
    except R.OccursCheck:
        raise S.Outside('occurs check')
    return answers, segs, exhausted, it


import re


def out_matches(got, want):
    """engine output against reference output; the reference writes `$?` where an unbound variable is printed.  C04 quantifies over
    ground or bound arguments, so what is written for an unbound one is outside the claim (print writes name_id, print_list nothing):
    any text without a line break is accepted at that place, and the rest of the output is still compared"""
    if '$?' not in want: return got == want
    pat = r'[^\n]*?'.join(re.escape(x) for x in want.split('$?'))
    return re.fullmatch(pat, got, re.S) is not None


def compare_runs(m, run, ref, desc, what='answers', check_output=True):
    """engine run vs reference (answers, segs, exhausted).  Returns None or (key, detail)."""
    answers, segs, exhausted, it = ref
    n = min(len(run.answers), len(answers))
    for i in range(n):
        a = R.abst(run.answers[i])
        bad = R.has_bad(a)
        if bad: return ('ill-formed-answer', '%s: answer %d holds an ill-formed list (%s)' % (desc, i + 1, bad))
        if not R.alpha_eq(m, a, answers[i], {}, {}):
            return ('wrong-answer', '%s: answer %d is %s, depth-first resolution gives %s (reference answers: %s)' % (
                desc, i + 1, R.show(a), R.show(answers[i]), ' | '.join(R.show(x) for x in answers[:6])))
    if len(run.answers) != len(answers) or run.exhausted != exhausted:
        return ('wrong-number-of-answers', '%s: the engine gives %d answer(s)%s: %s; depth-first resolution gives %d%s: %s' % (
            desc, len(run.answers), '' if run.exhausted else '+', ' | '.join(R.show(R.abst(x)) for x in run.answers[:6]),
            len(answers), '' if exhausted else '+', ' | '.join(R.show(x) for x in answers[:6])))
    if check_output:
        for i, (a, b) in enumerate(zip(run.outs, segs)):
            if not out_matches(a, b):
                return ('wrong-output', '%s: output before %s is %r, the reference search writes %r' % (
                    desc, 'answer %d' % (i + 1) if i < len(run.answers) else 'the end of the search', a, b))
    return None
