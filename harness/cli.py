import sys, os, argparse
sys.setrecursionlimit(100000)
from . import engine

PROPS = {
    'C01': 'c01', 'C02': 'c02', 'C03': 'c03', 'C04': 'c04', 'C05': 'c05', 'C06': 'c06', 'C07': 'c07', 'C08': 'c08', 'C09': 'c09', 'C10': 'c10', 'C11': 'c11', 'C12': 'c12', 'C13': 'c13', 'C14': 'c14', 'C15': 'c15', 'C16': 'c16', 'C17': 'c17', 'C18': 'c18', 'C19': 'c19', 'C20': 'c20', 'C21': 'c21', 'C22': 'c22', 'C23': 'c23',
}


def main():
    ap = argparse.ArgumentParser()
    ap.add_argument('pid')
    ap.add_argument('--tier', default=os.environ.get('VERIF_TIER', 'quick'))
    ap.add_argument('--replay')
    ap.add_argument('--jobs', type=int)
    a = ap.parse_args()
    seed = int(os.environ.get('VERIF_SEED', '0') or 0)
    if a.pid not in PROPS:
        print('unknown or not-applicable property ' + a.pid); sys.exit(2)
    try:
        rc = engine.main(a.pid, PROPS[a.pid], a.tier, seed, replay=a.replay, jobs=a.jobs)
    except SystemExit as e:
        print('INCONCLUSIVE: %s' % (e,)); rc = 2
    except BaseException as e:
        import traceback
        traceback.print_exc()
        print('INCONCLUSIVE: internal error of the checking machinery: %s: %s' % (type(e).__name__, e)); rc = 2
    sys.stdout.flush(); sys.stderr.flush()
    os._exit(rc)


if __name__ == '__main__':
    main()
