"""Canonical source-text grammar (the form Display is specified to produce), bounded by depth.

A text is a list of (char, cls): cls tells which characters may be replaced by a symbolic character of the
same class without leaving the canonical form:
  'l' lowercase letter a-z, 'u' uppercase letter A-Z, 'd' digit 0-9, 'n' digit 1-9, '-' fixed.
"""
import itertools


def T(s, cls=None):
    """text from a string; letters and digits get their natural class unless cls given"""
    out = []
    for i, c in enumerate(s):
        if cls is not None: k = cls[i]
        elif c.islower(): k = 'l'
        elif c.isupper(): k = 'u'
        elif c.isdigit(): k = 'd'
        else: k = '-'
        out.append((c, k))
    return out


def fixed(s): return [(c, '-') for c in s]


def join(parts, sep):
    out = []
    for i, p in enumerate(parts):
        if i: out += fixed(sep)
        out += p
    return out


def s(t): return ''.join(c for c, _ in t)


def number_texts():
    # integers: no leading zero; floats: last fractional digit non-zero (shortest round-trip form)
    return [T('7', 'd'), T('42', 'nd'), fixed('-') + T('3', 'n'), T('0.5', 'd-n'), T('3.14', 'd-dn'), fixed('-') + T('2.25', 'd-dn'), T('120', 'ndd'),
            T('3.14159265358979', 'd-ddddddddddddnn'.replace('nn', 'dn')), fixed('0.0000000000001'), T('1234567.125', 'ndddddd-ddn'), fixed('9007199254740993')]


def atom_texts():
    return [T('a'), T('bob'), T('New York', 'ull-ulll')]


def var_texts():
    return [fixed('$') + T('X'), fixed('$') + T('Abc', 'ull'), fixed('$_'), fixed('$') + T('Rest_1', 'ulll-n'), fixed('$') + T('Y_23', 'u-nd'), fixed('$') + T('X2', 'ud')]


def leaf_terms():
    return atom_texts() + number_texts() + var_texts()


def terms(depth):
    """canonical term texts up to nesting depth"""
    if depth == 0: return leaf_terms()
    sub = terms(depth - 1)
    vi = len(atom_texts()) + len(number_texts())
    small = sub[:1] + sub[3:5] + sub[vi:vi + 1] + (sub[vi + 6:vi + 8] if depth > 1 else [])   # a, 7, 42, $X, and two nested ones
    out = list(leaf_terms())
    out.append(fixed('[]'))
    for a in small:
        out.append(fixed('[') + a + fixed(']'))
        out.append(fixed('f(') + a + fixed(')'))
    for a, b in itertools.product(small[:4], small[:4]):
        out.append(fixed('[') + join([a, b], ', ') + fixed(']'))
        out.append(fixed('g(') + join([a, b], ', ') + fixed(')'))
    for a in small[:4]:
        out.append(fixed('[') + a + fixed(' | $T]'))
        out.append(fixed('[') + join([a, small[0]], ', ') + fixed(' | $Rest]'))
    out.append(fixed('[a, [b, c], []]'))
    out.append(fixed('[a, b | $Rest_1]')); out.append(fixed('[c, d, $Y_3 | $Z_4]')); out.append(fixed('f($X_1, [$X_1 | $T2])'))
    out.append(fixed('[3.14159265358979, -0.000001, 1234567.125]'))
    out.append(fixed('h(a, [b | $T], k(1, 2.5))'))
    out.append(fixed('add(') + join([small[1], small[2]], ', ') + fixed(')'))
    out.append(fixed('join(') + join([small[0], small[0]], ', ') + fixed(')'))
    out.append(fixed('p()'))
    # an integer that no f64 holds, after a float / an atom with a period in the same argument list
    out += [fixed('g(0.5, 9007199254740993)'), fixed('[2.5, 9007199254740993]'), fixed('born(J. S. Bach, 9007199254740993, -9007199254740993)')]
    # characters outside ASCII (two and three bytes in UTF-8) in atoms, functors and variable names
    out += [fixed('Montréal'), fixed('ß'), fixed('$Ünder'), fixed('[é, Δ | $Ü]'), fixed('ville(Montréal, $Pop)'), fixed('größe(λ, [α, β])'), fixed('日本(東京)')]
    return dedupe(out)


def dedupe(ts):
    seen, out = set(), []
    for t in ts:
        k = s(t)
        if k not in seen: seen.add(k); out.append(t)
    return out


def goals(depth):
    tm = terms(0)
    a, n, x = tm[0], tm[3], fixed('$') + T('X')
    t1 = terms(1)
    lst = [t for t in t1 if s(t).startswith('[')][:4]
    out = []
    out += [fixed('p(') + a + fixed(')'), fixed('q(') + join([x, n], ', ') + fixed(')'), fixed('r()'),
            fixed('loves(') + join([T('Leonard', 'ullllll'), T('Penny', 'ullll')], ', ') + fixed(')')]
    out += [fixed('nl'), fixed('fail'), fixed('!')]
    out += [fixed('print(') + join([a, x], ', ') + fixed(')'), fixed('print_list(') + lst[1] + fixed(')'),
            fixed('append(') + join([a, lst[1], fixed('$Out')], ', ') + fixed(')'),
            fixed('functor(') + join([fixed('f(a)'), fixed('$F'), fixed('$A')], ', ') + fixed(')'),
            fixed('include(') + join([fixed('$_'), lst[2], fixed('$Out')], ', ') + fixed(')'),
            fixed('exclude(') + join([a, lst[2], fixed('$Out')], ', ') + fixed(')'),
            fixed('count(') + join([lst[2], fixed('$N')], ', ') + fixed(')')]
    out += [x + fixed(' = ') + n, x + fixed(' = ') + lst[1], x + fixed(' = add(') + join([fixed('$Y'), n], ', ') + fixed(')'),
            fixed('f($X) = f(a)')]
    out += [fixed('less_than(') + join([x, n], ', ') + fixed(')'), fixed('equal(') + join([x, a], ', ') + fixed(')'),
            fixed('greater_than_or_equal(') + join([x, fixed('$Y')], ', ') + fixed(')')]
    out += [fixed('less_than(add($X, 1), multiply($Y, 2))'), fixed('pair($X, b) = pair(a, $Y)'), fixed('f(g($X)) = h(k($Y), [a])'), fixed('equal(f(a), g(b))')]
    out += [fixed('ville(Montréal, $Pop)'), fixed('größe($X, 7)'), fixed('$X = Δ'), fixed('print(é, $Ü)'), fixed('less_than($Ü, 7)'), fixed('日本(東京, $X)')]
    if depth > 0:
        g = out[:2] + out[7:8] + out[14:15]
        for h in g:
            out.append(fixed('not(') + h + fixed(')'))
        out.append(fixed('time(') + g[0] + fixed(')'))
    return dedupe(out)


def sugar_goals():
    """accepted syntax that prints in another (canonical) form"""
    return [fixed(t) for t, _ in SUGAR]


# infix / bare forms and the named form they stand for (documented equivalences)
SUGAR = [('$X < 5', 'less_than($X, 5)'), ('$X <= $Y', 'less_than_or_equal($X, $Y)'), ('$X > 2.5', 'greater_than($X, 2.5)'), ('$X >= a', 'greater_than_or_equal($X, a)'),
         ('$X == b', 'equal($X, b)'), ('$X = $Y + 1', '$X = add($Y, 1)'), ('$X = 7 - 2', '$X = subtract(7, 2)'), ('$X = $Y * 2.5', '$X = multiply($Y, 2.5)'),
         ('$X = 9 / 3', '$X = divide(9, 3)'), ('q', None), ('go', None),
         ('add($X, 1) < multiply($Y, 2)', 'less_than(add($X, 1), multiply($Y, 2))'), ('f($X) == g(a)', 'equal(f($X), g(a))'), ('f(g($X)) >= h([a], k(b))', 'greater_than_or_equal(f(g($X)), h([a], k(b)))'),
         ('[a, b] == [a | $T]', 'equal([a, b], [a | $T])'), ('$X = f(a) + 1', None)]


def bodies(depth):
    g = goals(0)
    c = [g[0], g[1], g[7], g[14], g[4], g[6]]     # p(a), q($X, 7), print, $X = 7, nl, !
    out = []
    for a, b in itertools.product(c[:4], c[:5]):
        out.append(join([a, b], ', '))
        out.append(join([a, b], '; '))
    out.append(join([c[0], c[5], c[1]], ', '))
    out.append(join([c[0], c[1], c[2]], '; '))
    out.append(join([join([c[0], c[1]], ', '), join([c[2], c[3]], ', ')], '; '))
    out.append(join([c[0], join([c[1], c[5], c[2]], ', ')], '; '))
    out.append(join([join([c[0], c[5]], ', '), c[1]], '; '))
    if depth > 0:
        out.append(fixed('not(') + c[0] + fixed('), ') + c[1])
        out.append(join([c[1], fixed('not(') + c[0] + fixed(')')], ', '))
    return dedupe(out)


def rules(depth):
    heads = [fixed('p(') + T('a') + fixed(')'), fixed('q($X, $Y)'), fixed('f([$H | $T], $H)'), fixed('go()'), fixed('r(') + T('7', 'd') + fixed(')'),
             fixed('s(') + T('bob') + fixed(', [a, b])')]
    out = [h + fixed('.') for h in heads]
    bs = goals(0)[:2] + goals(0)[7:8] + goals(0)[14:15] + bodies(depth)[:12] + bodies(depth)[-5:]
    for h in heads[1:4]:
        for b in bs:
            out.append(h + fixed(' :- ') + b + fixed('.'))
    out += [fixed('sample(0.5, 9007199254740993).'), fixed('s($X) :- $X = 0.5, r(1.5, 9007199254740993), less_than(add(add($X, 1), 2), multiply($X, 2)), pair($X, b) = pair(a, $Y).')]
    out += [fixed('ville(Montréal, 1700000).'), fixed('größe($X, $Y) :- maß($X, $Y), $Y = Δ.'), fixed('é($X) :- ß($X); not(ü($X)).')]
    return dedupe(out)


def short_facts():
    """facts of any arity, including the shortest ones (their printed form is name().)"""
    return [fixed('p.'), fixed('go.'), fixed('p(a).'), fixed('ab.')]
