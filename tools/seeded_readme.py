#!/usr/bin/env python3
"""Writes seeded/README.md from seeded/*/meta.json."""
import json, os, glob
ROOT = os.path.dirname(os.path.dirname(os.path.abspath(__file__)))
rows = []
for d in sorted(glob.glob(os.path.join(ROOT, 'seeded', '*', 'meta.json'))):
    m = json.load(open(d)); name = os.path.basename(os.path.dirname(d))
    rows.append((name, m))
out = ['# Seeded changes', '',
       'Each directory holds a change to suiron-rust written by an independent sub-agent that was given only the text of one property and a scratch worktree '
       '(nothing from /verif): `patch.diff` (source change), `demo.rs` (an integration test that fails with the change and passes without it) and `meta.json`. '
       'Every change compiles, keeps the existing suite at 100/100 and was confirmed in a scratch worktree with `tools/seeded_verify.sh`. '
       '`tools/seeded_run.sh <patch> <check ids>` applies a change to /repo, runs the quick checks and undoes it.', '',
       '| change | property | what it does | needs, to manifest | caught by (quick tier) | note |', '|---|---|---|---|---|---|']
for name, m in rows:
    esc = lambda s: (s or '').replace('|', '\\|').replace('\n', ' ')
    out.append('| %s | %s | %s | %s | %s | %s |' % (name, m['property'], esc(m['summary'])[:400], esc(m['needs_to_manifest'])[:300], ', '.join(m['caught_by']) or '**not caught**', esc(m.get('note'))[:300]))
caught = sum(1 for _, m in rows if m['caught_by'])
out += ['', '%d of %d seeded changes are reported (exit 1, VIOLATION line with a natively reproduced replay) by at least one check.' % (caught, len(rows))]
open(os.path.join(ROOT, 'seeded', 'README.md'), 'w').write('\n'.join(out) + '\n')
print('%d/%d caught' % (caught, len(rows)))
