"""C10 - renaming apart changes only variables, consistently."""
import z3
from mirsym.machine import Sym, Agg, Ptr, RcV, VecV, RStr
from ..engine import Violation
from ..driver import ScenarioEnd
from .. import progs as P
from .. import refunify as R
from .. import grammar as G
from .. import heap as H
from ..progs import V, A, C, L, I, gc, gb, AND, OR, NOT, U, F, X, Y, Z
from . import prog_common as PC
from . import bip_common as B

ANCHORS = ['recreate_variables', 'recreate_vars_terms', 'recreate_vars_goals', 'get_rule', 'make_query', 'next_id', 'set_var_id']
WITNESSES = {'all': ['term', 'goal', 'rule', 'empty-list', 'tail-variable', 'repeated-name', 'get_rule', 'mid-search', 'parsed-rule', 'renamed-twice', 'query']}
OPTS = {'quick': {'selfcheck_mod': 25, 'budget_s': 280}, 'thorough': {'selfcheck_mod': 200, 'budget_s': 3000}}
STEP_LIMIT = 1_500_000
BOUNDS = {
    'quick': 'the global id counter is a solver variable n (all 0 <= n < 2^32); recreate_variables on 60 terms (depth <= 2: atoms, numbers, `$_`, named variables with repeated and distinct names, '
             'complex terms, lists incl. [], nested [] and tail variables, function terms), 30 goals (every operator / built-in form) and 40 rules (constructed and parsed from the C19 grammar), once and twice; '
             'get_rule on a stored clause; make_query and parse_query on 8 queries (a name in two arguments, nested, as a tail; `$_`; none); checks: equal to the input ignoring ids only (list node chain, counts and tail flags included), one name <-> one id per clause, every new id > n and '
             'pairwise distinct (decided by the solver for all n); mid-search: after 0-4 next_solution steps of 6 queries, get_rule must hand out ids that occur nowhere in the live solution nodes',
    'thorough': 'terms to depth 3 and every rule of the C19 grammar',
}
OUTSIDE = 'two searches interleaved step by step on one thread (the crate documents one query at a time)'
ASSUMPTIONS = ['ids in use in the current search are read from the executor\'s heap (all goals and substitution sets reachable from the base node)']

XV, YV, ZV, TV = V('X'), V('Y'), V('Z'), V('T')
TERMS = [A('a'), I(7), ('float', 2.5), ('anon',), XV, C('f', XV), C('f', XV, XV), C('f', XV, YV), C('g', XV, C('f', YV, XV), A('k')),
         L(), L(A('a')), L(XV), L(XV, tail=TV), L(XV, YV, tail=XV), L(A('a'), L(), L(L())), L(L(XV, tail=YV), YV), C('h', L(), L(XV), ('anon',)),
         F('add', XV, I(1)), F('join', XV, L(YV, A('b'))), C('f', L(C('g', XV)), ('anon',), ZV), L(('anon',), tail=('anon',)), L(XV, tail=('anon',)),
         C('p', ('float', -0.5), I(-3), A('New York')), L(I(1), I(2), I(3), I(4), I(5)), C('f', C('f', C('f', XV)))]
GOALS = [gc('p', XV), gc('s'), gb('!'), gb('fail'), gb('nl'), U(XV, YV), U(XV, F('add', YV, I(1))), gb('print', A('%s'), XV), gb('append', XV, L(YV), ZV), gb('count', L(XV, tail=TV), YV),
         gb('functor', XV, YV, ZV), gb('include', ('anon',), XV, YV), gb('less_than', XV, I(3)), gb('print_list', L(XV, YV)),
         AND(gc('p', XV), gc('q', XV)), OR(gc('p', XV), gc('q', YV)), NOT(gc('p', XV)), AND(gc('p', XV), OR(gc('q', YV), AND(gb('!'), U(XV, YV))), NOT(U(ZV, L()))),
         ('gtime', (gc('p', XV),)), OR(AND(gc('r', XV, YV), gc('r', YV, ZV)), gc('r', ZV, XV)),
         # body-local variables that first occur in a different order in each alternative, and again after the disjunction
         AND(OR(U(ZV, I(1)), AND(U(TV, I(9)), U(ZV, I(2)))), gb('print', ZV, TV)), OR(gc('p', ZV), AND(gc('q', TV), gc('p', ZV)), gc('r', TV, ZV)),
         AND(NOT(OR(gc('p', ZV), gc('r', TV, ZV))), OR(gc('q', TV), gc('q', ZV)))]


# queries: a name in two arguments, in nested positions, as a list tail; anonymous variables; no variable at all
QUERY_TERMS = [C('edge', XV, XV), C('f', XV, C('g', XV, YV), L(YV, tail=XV)), C('f', XV, YV, XV, YV), C('f', ('anon',), XV, ('anon',), XV), C('f', A('a'), I(1)),
               C('f', L(XV, YV), L(YV, XV), ZV), C('f', C('g', C('g', XV)), XV), C('go')]


def cases(tier, seed):
    out = []
    for i, t in enumerate(TERMS):
        for twice in (False, True):
            out.append({'id': 'term %s%s' % (P.ttext(t), ' twice' if twice else ''), 'fam': 'term', 'i': i, 'twice': twice})
    for i, g in enumerate(GOALS):
        out.append({'id': 'goal %s' % P.gtext(g) if g[0] != 'gtime' else 'goal time(...)', 'fam': 'goal', 'i': i, 'twice': False})
    rules = [(C('t', XV, YV), g) for g in GOALS[:1] + GOALS[5:8] + GOALS[14:18] + GOALS[19:]] + [(C('t', L(XV, tail=TV), XV), None), (C('t', L(), ('anon',)), None)]
    for i, r in enumerate(rules):
        out.append({'id': 'rule %d' % i, 'fam': 'rule', 'rule': PC.jsonable(r), 'twice': i % 2 == 0})
        out.append({'id': 'get_rule %d' % i, 'fam': 'getrule', 'rule': PC.jsonable(r)})
    texts = G.rules(1)
    step = 2 if tier == 'quick' else 1
    for i, t in enumerate(texts[::step]):
        out.append({'id': 'parsed rule %r' % G.s(t), 'fam': 'parsed', 'text': G.s(t)})
    for i, qt in enumerate(QUERY_TERMS):
        out.append({'id': 'query %s' % P.ttext(qt), 'fam': 'query', 'i': i})
        out.append({'id': 'parsed query %s' % P.ttext(qt), 'fam': 'query', 'i': i, 'text': True})
    qs = [C('t1', XV), C('t3', XV), C('t4', XV), C('t5', XV), C('t6', XV), C('t2', XV), C('t7', XV)]
    for qi in range(len(qs)):
        for k in range(0, 5):
            out.append({'id': 'mid-search %s after %d steps' % (P.ttext(qs[qi]), k), 'fam': 'mid', 'q': qi, 'k': k})
    return out


def var_list(t, acc):
    """all variable occurrences (id, name) in order, for raw pterms / goals / rules"""
    if not isinstance(t, tuple) or not t: return acc
    if t[0] == 'var': acc.append((t[1], t[2])); return acc
    # a tagged node ('cplx', ...) or a plain sequence of nodes (the goals of an operator, the terms of a complex term)
    for x in (t[1:] if isinstance(t[0], str) else t): var_list(x, acc)
    return acc


def same_but_ids(m, a, b):
    """structural equality ignoring only variable ids"""
    if isinstance(a, tuple) and isinstance(b, tuple):
        if len(a) != len(b): return False
        if a and a[0] == 'var' and b and b[0] == 'var': return R.name_eq(m, a[2], b[2])
        return all(same_but_ids(m, x, y) for x, y in zip(a, b))
    if isinstance(a, Sym) or isinstance(b, Sym): return R.eq(m, a, b)
    if isinstance(a, float) and isinstance(b, float): return a == b or (a != a and b != b)
    return a == b


def check_renaming(m, before, after, n, desc, what):
    if not same_but_ids(m, before, after):
        raise Violation('renaming-changes-structure:' + what, '%s: renamed value differs from the original in more than variable ids:\n  before %r\n  after  %r' % (desc, before, after))
    vb, va = var_list(before, []), var_list(after, [])
    ids = {}
    for (_, name), (nid, name2) in zip(vb, va):
        key = name if isinstance(name, str) else repr(name)
        if key in ids:
            if not R.eq(m, ids[key], nid):
                raise Violation('one-name-two-ids:' + what, '%s: occurrences of %s got different ids' % (desc, key))
        else: ids[key] = nid
    vals = list(ids.items())
    for k, v in vals:
        fresh = m.binop('Gt', v, n) if (isinstance(v, Sym) or isinstance(n, Sym)) else v > n
        if not m.branch(fresh) if isinstance(fresh, Sym) else not fresh:
            raise Violation('id-not-fresh:' + what, '%s: variable %s got id %r, not above the counter value %r' % (desc, k, v, n))
    for i in range(len(vals)):
        for j in range(i + 1, len(vals)):
            if R.eq(m, vals[i][1], vals[j][1]):
                raise Violation('two-names-one-id:' + what, '%s: %s and %s share an id' % (desc, vals[i][0], vals[j][0]))
    return ids


def sym_counter(drv):
    m = drv.m
    n = m.fresh('counter', 'usize')
    if isinstance(n, Sym): m.assume(Sym(z3.ULT(n.e, 1 << 32), 'bool'))
    drv.setid(n)
    return n


def ids_in_heap(v, acc, seen):
    """every variable id stored anywhere below a heap value (solution nodes, goals, substitution sets)"""
    from mirsym.machine import Cell, RefCellV, BorrowV, SliceRef, ArrV
    stack = [v]
    while stack:
        x = stack.pop()
        if isinstance(x, (int, float, str, bool, Sym)) or x is None: continue
        if id(x) in seen: continue
        seen.add(id(x))
        if isinstance(x, Agg):
            if x.ty == 'Unifiable' and x.variant == 'LogicVar': acc.add(x.fields[0].v if not isinstance(x.fields[0].v, Sym) else None)
            for c in x.fields: stack.append(c.v)
        elif isinstance(x, (Ptr, RcV)): stack.append(x.cell.v)
        elif isinstance(x, RefCellV): stack.append(x.cell.v)
        elif isinstance(x, VecV): stack.extend(c.v for c in x.items)
        elif isinstance(x, ArrV): stack.extend(c.v for c in x.items)
    return acc


def names_in_heap(v):
    """(id, name) of every variable stored below a heap value"""
    from mirsym.machine import RefCellV, ArrV
    out, stack, seen = [], [v], set()
    while stack:
        x = stack.pop()
        if isinstance(x, (int, float, str, bool, Sym)) or x is None: continue
        if id(x) in seen: continue
        seen.add(id(x))
        if isinstance(x, Agg):
            if x.ty == 'Unifiable' and x.variant == 'LogicVar' and not isinstance(x.fields[0].v, Sym):
                out.append((x.fields[0].v, x.fields[1].v.concrete()))
            for c in x.fields: stack.append(c.v)
        elif isinstance(x, (Ptr, RcV)): stack.append(x.cell.v)
        elif isinstance(x, RefCellV): stack.append(x.cell.v)
        elif isinstance(x, (VecV, ArrV)): stack.extend(c.v for c in x.items)
    return out


def run(drv, case):
    m = drv.m
    fam = case['fam']
    desc = case['id']
    tags = [fam if fam in ('term', 'goal', 'rule', 'query') else {'getrule': 'get_rule', 'parsed': 'parsed-rule', 'mid': 'mid-search'}[fam]]
    try:
        if fam in ('term', 'goal', 'rule', 'parsed'):
            if fam == 'term': src = drv.term(TERMS[case['i']])
            elif fam == 'goal': src = drv.goal(GOALS[case['i']])
            elif fam == 'rule':
                h, b = PC.untuple(case['rule'])
                src = drv.rule(drv.term(h), None if b is None else drv.goal(b))
            else:
                src, res = drv.parse('rule', case['text'])
                if res[0] != 'ok': return {'tags': ['text-rejected'], 'nontrivial': False}
            before = drv.dump(src)
            n = sym_counter(drv)
            r1 = drv.recreate(src)
            after = drv.dump(r1)
            check_renaming(m, before, after, n, desc, fam)
            n1 = drv.getid()
            if case.get('twice'):
                r2 = drv.recreate(r1)
                after2 = drv.dump(r2)
                check_renaming(m, after, after2, n1, desc + ' (second renaming)', fam)
                tags.append('renamed-twice')
            text = repr(before)
            if "('node', ('nil',), ('nil',), 0, False)" in text: tags.append('empty-list')
            if ', True)' in text: tags.append('tail-variable')
            names = [nm for _, nm in var_list(before, [])]
            if len(names) != len(set(names)): tags.append('repeated-name')
        elif fam == 'query':
            qt = QUERY_TERMS[case['i']]
            src = drv.term(qt)
            before = ('gc', drv.dump(src))
            drv.setid(7)          # make_query starts the numbering again: whatever the counter was
            if case.get('text'):
                q, res = drv.parse('query', P.ttext(qt))
                if res[0] != 'ok': raise Violation('query-rejected', '%s: parse_query rejects it' % desc)
            else:
                q = drv.query([drv.term(t) for t in qt[1]])
            check_renaming(m, before, drv.dump(q), 0, desc, 'query')
            tags = ['query']
        elif fam == 'getrule':
            h, b = PC.untuple(case['rule'])
            rule = drv.rule(drv.term(h), None if b is None else drv.goal(b))
            kb = drv.kb([rule])
            before = drv.dump(rule)
            n = sym_counter(drv)
            got = drv.getrule(kb, 't/%d' % (len(h[1]) - 1), 0)
            check_renaming(m, before, drv.dump(got), n, desc, 'get_rule')
        else:
            from . import c22
            syms = {}
            base = [P.inst(m, c, syms) for c in PC.needed_base(c22.KB)]
            kbc = base + [P.inst(m, c, syms) for c in c22.KB]
            kb = P.build_kb(drv, kbc)
            qs = [C('t1', XV), C('t3', XV), C('t4', XV), C('t5', XV), C('t6', XV), C('t2', XV), C('t7', XV)]
            qt = qs[case['q']]
            q = drv.query([drv.term(t) for t in qt[1]])
            node = drv.base(q, kb)
            last = None
            # every clause instance fetched *during* the search must get ids that occur nowhere in the live solution nodes
            clashes = []
            def on_get_rule(mm, func, args, ret):
                # every renamed clause instance, whichever function hands it out
                if not (isinstance(ret, Agg) and ret.ty == 'Rule'): return
                new = set()
                ids_in_heap(ret, new, set())
                if not new: return
                live = ids_in_heap(node.h, set(), set())
                both = sorted(x for x in (new & live) if x is not None)
                if both: clashes.append('id(s) %s are in use in the live solution nodes' % both)
                byname, byid = {}, {}
                for vid, nm in names_in_heap(ret):
                    if byname.setdefault(nm, vid) != vid: clashes.append('%s has two ids in one clause instance' % nm)
                    if byid.setdefault(vid, nm) != nm: clashes.append('%s and %s share id %s in one clause instance' % (byid[vid], nm, vid))
            m.post_hooks['recreate_variables'] = on_get_rule
            for i in range(case['k']):
                r = drv.next(node)
                if r.h is None: break
                last = r
            m.post_hooks.pop('recreate_variables', None)
            if clashes:
                raise Violation('fresh-id-in-use', '%s: a clause instance renamed during the search: %s' % (desc, clashes[0]))
            used = ids_in_heap(node.h, set(), set())
            # inside the running search every id belongs to one variable: two names under one id = a fresh variable that was in use
            names = {}
            for vid, nm in names_in_heap(node.h):
                if vid in names and names[vid] != nm:
                    raise Violation('fresh-id-in-use', '%s: id %s is carried by both %s and %s in the live solution nodes' % (desc, vid, names[vid], nm))
                names[vid] = nm
            used |= {i for i, _ in var_list(drv.dump(q), [])}
            if last is not None:
                ss = drv.dumpss(last)
                used |= {i for i, e in enumerate(ss) if e is not None}
                for e in ss: used |= {i for i, _ in var_list(e, [])} if e else set()
            n = drv.getid()
            for key, idx in (('p/1', 0), ('member/2', 1), ('t4/1', 0), ('pr/3', 0)):
                rule = drv.getrule(kb, key, idx)
                new = {i for i, _ in var_list(drv.dump(rule), [])}
                clash = new & used
                if clash:
                    raise Violation('fresh-id-in-use', '%s: get_rule(%s) hands out id(s) %s that are in use in the running search (counter was %s)' % (desc, key, sorted(clash), n))
                if any(i <= n for i in new):
                    raise Violation('id-not-fresh:mid', '%s: get_rule(%s) ids %s not above the counter %s' % (desc, key, sorted(new), n))
                n = drv.getid()
    except ScenarioEnd as e:
        raise Violation('renaming-%s' % e.why[0], '%s: %s' % (desc, e.why[1][:200]))
    return {'tags': tags, 'note': desc}
