"""Shared harness for C06-C09: run the real `Unifiable::unify` (MIR) on (A, B) under a substitution built
by earlier real unifications, and compare with the reference unifier on every solver-separated path."""
from mirsym.machine import PathInfeasible, Sym
from ..engine import Violation
from .. import refunify as R
from .. import universe as U
from .. import heap as H

ANCHORS = ['>::unify']


def build_pterm(t):
    """pterm spec (with plist/mklist) -> what the reference sees: abstract term"""
    k = t[0]
    if k == 'plist': return ('lst', tuple(build_pterm(x) for x in t[1]), t[2])
    if k == 'mklist':
        items = [build_pterm(x) for x in t[2]]
        if t[1]:
            return ('lst', tuple(items[:-1]), items[-1])
        return ('lst', tuple(items), None)
    if k == 'cplx': return ('cplx', tuple(build_pterm(x) for x in t[1]))
    if k == 'func': return ('func', t[1], tuple(build_pterm(x) for x in t[2]))
    if k == 'node': return R.abst(t)
    return t


def struct_eq(m, a, b):
    """exact structural equality of two raw pterms (symbolic leaves decided by the solver)"""
    if a is None or b is None: return a is None and b is None
    if a[0] != b[0]: return False
    k = a[0]
    if k in ('nil', 'anon'): return True
    if k == 'atom': return R.name_eq(m, a[1], b[1])
    if k in ('int', 'float'): return R.eq(m, a[1], b[1])
    if k == 'var': return R.eq(m, a[1], b[1]) and R.name_eq(m, a[2], b[2])
    if k == 'cplx': return len(a[1]) == len(b[1]) and all(struct_eq(m, x, y) for x, y in zip(a[1], b[1]))
    if k == 'func': return R.name_eq(m, a[1], b[1]) and len(a[2]) == len(b[2]) and all(struct_eq(m, x, y) for x, y in zip(a[2], b[2]))
    if k == 'node': return struct_eq(m, a[1], b[1]) and struct_eq(m, a[2], b[2]) and a[3] == b[3] and a[4] == b[4]
    raise ValueError(k)


def kinds(A, B):
    return '%s~%s' % (U.kind(A), U.kind(B))


def apply_priors(drv, case, ss, sub, vars_seen):
    """run the prior unifications through the real unify; drop the path unless they succeed and agree
    with the reference (a disagreement there is a smaller instance that the no-prior family reports)"""
    m = drv.m
    for n, (P, Q) in enumerate(case.get('priors', [])):
        p = U.inst(m, P, 'p%d' % n); q = U.inst(m, Q, 'q%d' % n)
        tp, tq = drv.term(p), drv.term(q)
        ap, aq = build_pterm(p), build_pterm(q)
        R.vars_of(ap, vars_seen); R.vars_of(aq, vars_seen)
        ss2 = drv.unify(tp, tq, ss)
        try:
            sub2 = R.unify(m, ap, aq, sub)
        except R.OccursCheck:
            raise PathInfeasible()
        if ss2.h is None or sub2 is None: raise PathInfeasible()
        after = drv.dumpss(ss2)
        if R.impl_chain_ok(after) is not None: raise PathInfeasible()
        if not same_state(m, after, sub2, vars_seen): raise PathInfeasible()
        ss, sub = ss2, sub2
    return ss, sub


def same_state(m, impl_ss, ref_sub, vars_seen, why=None):
    """every variable resolves to the same value (up to one renaming of unbound variables)"""
    isub = R.impl_sub(impl_ss)
    ids = set(vars_seen) | set(isub) | set(ref_sub)
    fwd, bwd = {}, {}
    for vid in sorted(ids):
        v = vars_seen.get(vid, ('var', vid, '$V%d' % vid))
        try:
            ri = R.resolve_impl(v, isub)
        except R.Cycle:
            if why is not None: why.append('variable %d is on a binding cycle' % vid)
            return False
        rr = R.resolve(v, ref_sub)
        bad = R.has_bad(ri)
        if bad:
            if why is not None: why.append('variable %d resolves to an ill-formed list (%s)' % (vid, bad))
            return False
        if not R.alpha_eq(m, ri, rr, fwd, bwd):
            if why is not None: why.append('variable %s: implementation gives %s, a most general unifier gives %s' % (R.show(v), R.show(ri), R.show(rr)))
            return False
    return True


def check_mgu(drv, case, symmetric=False):
    """C06 oracle (and C07 when symmetric=True).  Returns info dict; raises Violation."""
    m = drv.m
    A, B = case['A'], case['B']
    vars_seen = {}
    ss, sub = apply_priors(drv, case, drv.ss0(), {}, vars_seen)
    a = U.inst(m, A, 'A'); b = U.inst(m, B, 'B')
    ta, tb = drv.term(a), drv.term(b)
    aa, ab = build_pterm(a), build_pterm(b)
    R.vars_of(aa, vars_seen); R.vars_of(ab, vars_seen)
    before = drv.dumpss(ss)
    r = drv.unify(ta, tb, ss)
    tags = []
    try:
        sub2 = R.unify(m, aa, ab, sub)
    except R.OccursCheck:
        return {'tags': ['occurs-check-outside-claim'], 'nontrivial': False}
    desc = '%s = %s%s' % (U.text(A), U.text(B), '' if not case.get('priors') else ' after ' + ', '.join('%s = %s' % (U.text(p), U.text(q)) for p, q in case['priors']))
    kk = kinds(A, B)
    if (r.h is None) != (sub2 is None):
        raise Violation('success-mismatch:' + kk, '%s: implementation %s, reference %s' % (desc, 'fails' if r.h is None else 'succeeds', 'fails' if sub2 is None else 'succeeds'))
    if r.h is not None:
        tags.append('success')
        after = drv.dumpss(r)
        if any(e is not None for e in after) and len([e for e in after if e is not None]) > len([e for e in before if e is not None]): tags.append('binds')
        if case.get('priors'): tags.append('with-prior')
        # (i) earlier bindings are kept
        if len(after) < len(before):
            raise Violation('drops-binding:' + kk, desc + ': result substitution is shorter than the input')
        for i, e in enumerate(before):
            if e is not None and not struct_eq(m, e, after[i]):
                raise Violation('changes-binding:' + kk, '%s: binding of variable %d changed from %s to %s' % (desc, i, R.show(e), R.show(after[i]) if after[i] else 'unbound'))
        cyc = R.impl_chain_ok(after)
        if cyc is not None:
            raise Violation('cycle:' + kk, '%s: bindings form a cycle through variable %d' % (desc, cyc))
        # (iii) nothing more and nothing less than a most general unifier
        why = []
        if not same_state(m, after, sub2, vars_seen, why):
            raise Violation('not-mgu:' + kk, desc + ': ' + '; '.join(why))
        # (ii) both terms identical when resolved (the crate's own replace_variables)
        ra, rb = drv.resolve(ta, r), drv.resolve(tb, r)
        xa, xb = R.abst(ra), R.abst(rb)
        isub = R.impl_sub(after)
        xa, xb = R.resolve_impl(xa, isub), R.resolve_impl(xb, isub)
        fwd, bwd = {}, {}
        if not R.alpha_eq(m, xa, xb, fwd, bwd, anon_wild=True) or any(k != v for k, v in fwd.items()):
            raise Violation('not-identical:' + kk, '%s: resolved sides differ: %s vs %s' % (desc, R.show(xa), R.show(xb)))
    else:
        tags.append('failure')
    if symmetric:
        r2 = drv.unify(tb, ta, ss)
        if (r2.h is None) != (r.h is None):
            raise Violation('asymmetric-success:' + kk, '%s %s but the swapped unification %s' % (desc, 'succeeds' if r.h is not None else 'fails', 'succeeds' if r2.h is not None else 'fails'))
        if r2.h is not None:
            after2 = drv.dumpss(r2)
            why = []
            if R.impl_chain_ok(after2) is not None or not same_state(m, after2, sub2, vars_seen, why):
                raise Violation('asymmetric-bindings:' + kk, '%s: swapped order gives different values: %s' % (desc, '; '.join(why) or 'cycle'))
    return {'tags': tags, 'note': desc}
