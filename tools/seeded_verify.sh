#!/bin/bash
# usage: tools/seeded_verify.sh <dir with patch.diff, demo.rs>
# Confirms in a scratch worktree (outside /repo and /verif): the patch applies and compiles, the existing suite
# passes with it, the demonstration fails with it and passes without it.  Removes the worktree afterwards.
set -u
D=$(realpath "$1"); W=$(mktemp -d /tmp/seedchk.XXXXXX); rmdir "$W"
git -C /repo worktree add -q --detach "$W" HEAD || exit 2
cp /repo/Cargo.lock "$W"/ 2>/dev/null
cd "$W"
cp "$D/demo.rs" tests/mut_demo.rs
export CARGO_NET_OFFLINE=true
r_clean=$(timeout 900 cargo test --offline --test mut_demo 2>&1 | grep -E "^test result" | head -1)
git apply "$D/patch.diff" || { echo "PATCH-DOES-NOT-APPLY"; cd /; git -C /repo worktree remove --force "$W"; exit 2; }
r_mut=$(timeout 900 cargo test --offline --test mut_demo 2>&1 | grep -E "^test result|panicked|overflow|timed out|error(\[|:)" | head -3 | tr '\n' ' ')
rm tests/mut_demo.rs
suite=$(timeout 900 cargo nextest run --workspace --no-fail-fast --offline --test-threads 8 2>&1 | grep -E "Summary" | head -1)
echo "demo on clean tree : $r_clean"
echo "demo with the patch: $r_mut"
echo "suite with the patch: $suite"
cd /; git -C /repo worktree remove --force "$W"
