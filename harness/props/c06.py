"""C06 - unification returns a most general unifier extending prior bindings."""
import itertools
from . import unify_common as UC
from .. import universe as U

ANCHORS = UC.ANCHORS
WITNESSES = {'all': ['success', 'failure', 'binds', 'with-prior']}
OPTS = {'quick': {'selfcheck_mod': 100, 'budget_s': 240}, 'thorough': {'selfcheck_mod': 2000, 'budget_s': 2400}}
BOUNDS = {
    'quick': 'all ordered pairs (A,B) of term shapes of nesting depth <= 1 with size(A)+size(B) <= 3, and <= 4 when both are lists or both complex terms, over leaves '
             '{a, atom of one symbolic letter, symbolic i64, symbolic f64, $V1, $V2, $_, []}, complex f/1 f/2 g/1, lists of <= 3 elements '
             'with no tail / $V3 / $V4 / $_ tail (parser-built node chains; constructor-built for size <= 3); '
             'plus 12 prior substitutions (each one real unification) x all leaf pairs; plus 5 priors that bind a tail variable to a list ([], [b], [b | $V4], [b, a], [b | $_]) x '
             '(lists of 1-2 elements ending in that tail variable) x (lists of 1-3 elements with no / variable / `$_` tail), both operand orders',
    'thorough': 'pairs with size(A)+size(B) <= 5 at depth <= 1 and <= 4 at depth 2; 12 single priors x pairs of total size <= 4; '
                '20 double priors x pairs of total size <= 3',
}
OUTSIDE = 'pairs needing an occurs check; NaN; function terms; variables with id 0; terms beyond the size bound'
ASSUMPTIONS = ['floats are not NaN; 0.0 and -0.0 count as equal (both the crate and the reference use ==)',
               'prior substitutions are produced by the real unify; histories on which it fails or disagrees with the reference are dropped here and reported by the no-prior family']

LEAVES_Q = [['a'], ['s'], ['i'], ['x'], ['v', 1], ['v', 2], ['_']]
TAILS = [['v', 3], ['v', 4], ['_']]

PRIORS = [
    (['v', 1], ['a']), (['v', 1], ['v', 2]), (['v', 2], ['v', 1]), (['v', 1], ['i']), (['v', 3], ['l', 'p', [['a']], None]),
    (['v', 1], ['f', ['v', 2]]), (['v', 1], ['l', 'p', [['a']], ['v', 2]]), (['v', 2], ['e']), (['v', 1], ['_']),
    (['v', 3], ['e']), (['v', 3], ['v', 1]), (['f', ['v', 1], ['v', 2]], ['f', ['v', 2], ['a']]),
]
PRIORS2 = [(PRIORS[1], PRIORS[0]), (PRIORS[1], (['v', 2], ['i'])), (PRIORS[2], (['v', 1], ['f', ['v', 3]])), (PRIORS[6], PRIORS[7]),
           (PRIORS[6], (['v', 2], ['l', 'p', [['b']], ['v', 3]])), (PRIORS[4], (['v', 1], ['v', 3])), (PRIORS[10], PRIORS[9]),
           (PRIORS[5], (['v', 2], ['v', 3])), (PRIORS[1], PRIORS[2]), (PRIORS[2], PRIORS[1]), (PRIORS[8], PRIORS[0]),
           ((['v', 1], ['v', 2]), (['v', 2], ['v', 3])), ((['v', 3], ['v', 2]), (['v', 2], ['v', 1])),
           (PRIORS[3], (['v', 2], ['v', 1])), (PRIORS[7], (['v', 1], ['l', 'p', [['a']], ['v', 2]])),
           ((['v', 1], ['l', 'p', [['v', 2]], None]), (['v', 2], ['x'])), (PRIORS[11], (['v', 3], ['v', 1])),
           (PRIORS[0], (['v', 2], ['b'])), (PRIORS[4], PRIORS[9]), (PRIORS[6], (['v', 2], ['_']))]


def pairs(ts, total):
    bys = {}
    for t in ts: bys.setdefault(U.size(t), []).append(t)
    for sa, la in sorted(bys.items()):
        for sb, lb in sorted(bys.items()):
            if sa + sb > total: continue
            for a in la:
                for b in lb:
                    yield a, b


def cases(tier, seed):
    out = []
    def add(a, b, pri=()):
        out.append({'id': '%s=%s|%d' % (U.text(a), U.text(b), len(out)), 'A': a, 'B': b, 'priors': [list(p) for p in pri]})
    is_m = lambda t: t[0] == 'l' and t[1] == 'm'
    tp = U.terms(LEAVES_Q, TAILS, 3, 1, styles=('p',))
    tm = [t for t in U.terms(LEAVES_Q, TAILS, 3, 1, styles=('m',)) if is_m(t) and U.kind(t[2][-1] if t[3] is None else t[3]) != 'list']
    s1 = [t for t in tp if U.size(t) == 1]
    # tail variables already bound to a list when two lists meet (both operand orders through the pair enumeration)
    el_a, el_b = [['a'], ['b'], ['v', 1]], [['a'], ['b'], ['v', 2]]
    la = [['l', 'p', list(c), ['v', 3]] for n in (1, 2) for c in itertools.product(el_a, repeat=n)]
    lb = [['l', 'p', list(c), tl] for n in (1, 2, 3) for c in itertools.product(el_b, repeat=n) for tl in (None, ['v', 4], ['_'])]
    if tier == 'quick': lb = [x for x in lb if len(x[2]) < 3 or x[2][2] != ['v', 2]]
    tail_priors = [(['v', 3], ['e']), (['v', 3], ['l', 'p', [['b']], None]), (['v', 3], ['l', 'p', [['b']], ['v', 4]]), (['v', 3], ['l', 'p', [['b'], ['a']], None]),
                   (['v', 3], ['l', 'p', [['b']], ['_']])]
    for p in tail_priors:
        for a in la:
            for b in lb:
                add(a, b, [p]); add(b, a, [p])
    if tier == 'quick':
        for a, b in pairs(tp, 4):
            if U.size(a) + U.size(b) <= 3 or (U.kind(a) == U.kind(b) and U.kind(a) in ('list', 'cplx')): add(a, b)
        for a, b in pairs(tp + tm, 3):
            if is_m(a) or is_m(b): add(a, b)
        for p in PRIORS:
            for a, b in pairs(s1, 2):
                if U.has(a, 'v') or U.has(b, 'v'): add(a, b, [p])
    else:
        t5 = U.terms(LEAVES_Q + [['b']], TAILS, 4, 1, styles=('p',))
        for a, b in pairs(t5, 5): add(a, b)
        t2 = U.terms(LEAVES_Q, TAILS, 2, 2, styles=('p',))
        r1 = {repr(x) for x in tp}
        for a, b in pairs(t2, 3):
            if repr(a) not in r1 or repr(b) not in r1: add(a, b)
        for a, b in pairs(tp + tm, 4):
            if is_m(a) or is_m(b): add(a, b)
        small = [t for t in tp if U.size(t) <= 2]
        for p in PRIORS:
            for a, b in pairs(small, 3):
                if U.has(a, 'v') or U.has(b, 'v'): add(a, b, [p])
        for p2 in PRIORS2:
            for a, b in pairs(s1, 2):
                if U.has(a, 'v') or U.has(b, 'v'): add(a, b, list(p2))
    return out


def run(drv, case):
    return UC.check_mgu(drv, case)
