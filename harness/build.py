"""Regenerates, on every run, the two artefacts every check needs from /repo's *current working tree*:
  1. the MIR dump (rustc nightly, -Zunpretty=mir, mir-opt-level 0) that the symbolic executor runs;
  2. vreplay, the native replayer, linked against the crate built from the same tree.
Nothing is written into /repo: the MIR is dumped from an rsync'ed snapshot under /verif/.cache.
"""
import os, subprocess, hashlib, fcntl, time, sys, shutil

ROOT = os.path.dirname(os.path.dirname(os.path.abspath(__file__)))
REPO = os.environ.get('VERIF_REPO', '/repo')
# the registered checks always look at /repo; VERIF_REPO points the same machinery at a scratch copy (used only to try
# seeded changes without touching /repo) and then uses a cache directory of its own
CACHE = os.path.join(ROOT, '.cache' if REPO == '/repo' else '.cache-alt-' + hashlib.sha1(REPO.encode()).hexdigest()[:8])

COMMON_ASSUMPTIONS = [
    'the MIR printed by rustc nightly for the current source is the program (mir-opt-level 0, overflow checks on, as in the dev profile the tests run)',
    'std is modelled: Vec/String/Box/Rc/RefCell/HashMap/iterators/fmt are hand-written models of the executor (mirsym/models.py); '
    'they are cross-checked on every run by replaying sampled paths on the natively compiled crate (traces_validated_against_impl)',
    'stdout is the modelled io::_print log; files are an in-memory table; the timer thread is a modelled event',
    'a VIOLATION is reported only after the concrete input reproduces on the native build (vreplay)',
]

ENV = dict(os.environ, CARGO_NET_OFFLINE='true')


def tree_hash():
    h = hashlib.sha256()
    for base, dirs, files in os.walk(os.path.join(REPO, 'src')):
        dirs.sort()
        for f in sorted(files):
            p = os.path.join(base, f)
            h.update(p.encode()); h.update(open(p, 'rb').read())
    for f in ('Cargo.toml', 'build.rs'):
        p = os.path.join(REPO, f)
        if os.path.exists(p): h.update(open(p, 'rb').read())
    return h.hexdigest()[:16]


def mir_paths():
    return os.path.join(CACHE, 'suiron.mir'), os.path.join(CACHE, 'snap', 'repo', 'src')


def sh(cmd, cwd=None, env=None):
    p = subprocess.run(cmd, cwd=cwd, env=env or ENV, capture_output=True, text=True)
    return p


def prepare(hooks=False, quiet=True):
    os.makedirs(CACHE, exist_ok=True)
    lock = open(os.path.join(CACHE, 'build.lock'), 'w')
    fcntl.flock(lock, fcntl.LOCK_EX)
    try:
        t0 = time.time()
        th = tree_hash()
        stamp = os.path.join(CACHE, 'mir.stamp')
        mir, src = mir_paths()
        reuse = os.environ.get('VERIF_REUSE_MIR') == '1' and os.path.exists(stamp) and open(stamp).read() == th and os.path.exists(mir)
        if not reuse:
            snap = os.path.join(CACHE, 'snap', 'repo')
            os.makedirs(snap, exist_ok=True)
            p = sh(['rsync', '-a', '--delete', '--exclude', 'target', '--exclude', '.git', REPO + '/', snap + '/'])
            if p.returncode != 0: raise SystemExit('rsync failed: ' + p.stderr)
            # force rustc to run (cargo would otherwise consider the crate fresh and print nothing)
            os.utime(os.path.join(snap, 'src', 'lib.rs'))
            env = dict(ENV, CARGO_TARGET_DIR=os.path.join(CACHE, 'mir-target'))
            p = sh(['cargo', '+nightly', 'rustc', '--offline', '--lib', '--', '-Zunpretty=mir', '-Zmir-opt-level=0',
                    '-C', 'opt-level=0', '-C', 'debug-assertions=off', '-C', 'overflow-checks=on'], cwd=snap, env=env)
            if p.returncode != 0 or len(p.stdout) < 1000:
                print(p.stderr[-3000:], file=sys.stderr)
                raise SystemExit('MIR dump failed (does /repo compile?)')
            open(mir, 'w').write(p.stdout)
            open(stamp, 'w').write(th)
        t1 = time.time()
        # native replayer against /repo itself
        tdir = os.path.join(CACHE, 'vreplay-target-hooks' if hooks else 'vreplay-target')
        env = dict(ENV, CARGO_TARGET_DIR=tdir)
        if hooks: env['RUSTFLAGS'] = '--cfg suiron_verif'
        vdir = os.path.join(ROOT, 'vreplay')
        if REPO != '/repo':
            vdir = os.path.join(CACHE, 'vreplay-src')
            shutil.rmtree(vdir, ignore_errors=True)
            shutil.copytree(os.path.join(ROOT, 'vreplay'), vdir, ignore=shutil.ignore_patterns('target'))
            ct = open(os.path.join(vdir, 'Cargo.toml')).read().replace('path = "/repo"', 'path = "%s"' % REPO)
            open(os.path.join(vdir, 'Cargo.toml'), 'w').write(ct)
        p = sh(['cargo', 'build', '--offline', '--quiet'], cwd=vdir, env=env)
        if p.returncode != 0:
            print(p.stderr[-3000:], file=sys.stderr)
            raise SystemExit('vreplay build failed')
        return {'tree_hash': th, 'mir_lines': sum(1 for _ in open(mir)), 'mir_dump_s': round(t1 - t0, 2),
                'vreplay_build_s': round(time.time() - t1, 2), 'hooks': hooks,
                'rustc_mir': 'nightly -Zunpretty=mir -Zmir-opt-level=0 -C overflow-checks=on'}
    finally:
        fcntl.flock(lock, fcntl.LOCK_UN)
