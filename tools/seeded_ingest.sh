#!/bin/bash
# usage: tools/seeded_ingest.sh <ID> <round tag, e.g. r5> [extra check ids...]
# Copies /tmp/mut/<ID>/{patch,demo,meta}{1,2} to seeded/<ID>-<tag>-k/, confirms each with seeded_verify.sh and runs
# the property's own quick check (plus extra checks) on a scratch worktree with the change applied.
set -u
ID=$1; TAG=$2; shift 2
cd /verif
for k in 1 2; do
  S=/tmp/mut/$ID
  [ -f $S/patch$k.diff ] && [ -f $S/demo$k.rs ] || { echo "$ID-$k: not delivered"; continue; }
  D=seeded/$ID-$TAG-$k; mkdir -p $D
  cp $S/patch$k.diff $D/patch.diff; cp $S/demo$k.rs $D/demo.rs; cp $S/meta$k.json $D/agent_meta.json 2>/dev/null || echo '{}' > $D/agent_meta.json
  echo "### $D"; tools/seeded_verify.sh $D 2>&1 | tail -3
  VERIF_JOBS=${VERIF_JOBS:-8} tools/seeded_run_alt.sh $D/patch.diff $ID "$@"
done
